"""C10 - well-formed designs elaborate without combinational loops."""

from amaranth import *
from amaranth.hdl import _nir
from amaranth.hdl._ir import Fragment, build_netlist
from hypothesis import strategies as st

from tv.core import Result, setup_paths, short_exc

setup_paths()

from transactron import Method, TModule, Transaction, def_method  # noqa: E402
from transactron.core import TransactronContextElaboratable  # noqa: E402
from transactron.lib import FIFO, BasicFifo, Connect, Forwarder, Pipe  # noqa: E402
from transactron.lib.simultaneous import condition  # noqa: E402
from transactron.utils.dependencies import DependencyContext, DependencyManager  # noqa: E402

from tv.designs import gen_deep_nesting_spec, Design, analyze, gen_spec  # noqa: E402
from tv.props._core_a import shape_labels  # noqa: E402

ID = "C10"
ENGINE = "A"
RULE = (
    "case = either (a) a generated design of the full grammar under the default scheduler with emphasis on "
    "run-dependent readiness (a method ready only if an earlier body, declared with schedule_before, runs), nested "
    "transactions, add_conflict / schedule_before relations and aliases, or (b) a chain of 1-5 real library buffers "
    "(Forwarder, Pipe, BasicFifo, FIFO, Connect) linked by transactions that read one stage and write the next, "
    "directly, through a helper method, or inside condition() branches, with peek observers and clear callers; oracle = "
    "amaranth.hdl._ir.build_netlist(Fragment.get(top)) raises no CombinationalCycle; non-trivial = the design contains "
    ">= 1 run-dependent ready (a 'rdep' method, a Forwarder or a Pipe) together with a conflict or a second stage"
)
ASSUMPTIONS = [
    "structural combinational cycles (as reported by amaranth's netlist builder) are what the statement means; false paths are not distinguished",
]
TECHNIQUE = "grammar-based design generation; oracle = structural combinational-cycle check of the elaborated netlist"

KINDS = ["forwarder", "pipe", "basicfifo", "fifo", "connect"]


def budget(tier):
    return dict(examples=40, seconds=45) if tier == "quick" else dict(examples=500, seconds=420)


@st.composite
def chain_spec(draw):
    n = draw(st.integers(1, 5))
    stages = [draw(st.sampled_from(KINDS)) for _ in range(n)]
    links = [draw(st.sampled_from(["direct", "helper", "condition", "condition_prio"])) for _ in range(n - 1)]
    # a prioritised condition on each side of a Connect yields merged transactions with contradictory priorities
    # (rightly rejected as cyclic): next to a Connect only unprioritised conditions are generated
    for i, k in enumerate(stages):
        if k == "connect":
            for j in (i - 1, i):
                if 0 <= j < len(links) and links[j] == "condition_prio":
                    links[j] = "condition"
    extras = []
    for i, k in enumerate(stages):
        if k in ("forwarder", "pipe", "basicfifo") and draw(st.integers(0, 2)) == 0:
            extras.append(["peek", i])
        if k in ("forwarder", "pipe", "basicfifo") and draw(st.integers(0, 3)) == 0:
            extras.append(["clear", i])
    # shared exclusive "resource" methods make the chain transactions conflict with each other, so that the
    # ordering imposed by schedule_before actually matters for the scheduler's combinational structure
    ntr = 2 + len(links) + len(extras)
    shared = []
    for _ in range(draw(st.integers(0, 3))):
        if draw(st.booleans()):
            i = draw(st.integers(0, n - 1))  # writer and reader of stage i share a resource
            shared.append([i, i + 1])
        else:
            shared.append(sorted(draw(st.sets(st.integers(0, ntr - 1), min_size=2, max_size=min(ntr, 3)))))
    # the writer and the reader of a Connect run simultaneously: a shared exclusive callee is (rightly) rejected as
    # unsatisfiable simultaneity, so such pairs never share a resource
    shared = [u for u in shared if not any(k == "connect" and i in u and i + 1 in u for i, k in enumerate(stages))]
    return {"gen": "chain", "stages": stages, "links": links, "extras": extras, "width": draw(st.integers(1, 4)),
            "shared": shared}


@st.composite
def strategy(draw, tier="quick"):
    if draw(st.integers(0, 2)) == 0:
        return draw(chain_spec())
    if draw(st.integers(0, 4)) == 0:
        # three levels of nested bodies with callers on every level
        spec = draw(gen_deep_nesting_spec())
        spec["vals"] = []
        spec["nvals"] = 1
        spec["gen"] = "grammar"
        return spec
    spec = draw(gen_spec(allow_rels=True, allow_rdep=True, rdep_bias=True, allow_nm=True, sched="eager", max_space=1, nvals=1, min_trans=2, max_trans=5))
    spec["vals"] = []
    spec["gen"] = "grammar"
    return spec


class Chain(Elaboratable):
    def __init__(self, spec):
        self.spec = spec
        self.ports = []

    def elaborate(self, platform):
        m = TModule()
        sp = self.spec
        w = sp["width"]
        lay = [("d", w)]
        st_ = []
        for i, k in enumerate(sp["stages"]):
            if k == "forwarder":
                c = Forwarder(lay)
            elif k == "pipe":
                c = Pipe(lay)
            elif k == "basicfifo":
                c = BasicFifo(lay, 2)
            elif k == "fifo":
                c = FIFO(lay, 2)
            else:
                c = Connect(lay)
            m.submodules[f"s{i}"] = c
            st_.append(c)
        src_rdy = Signal(name="src_rdy")
        src_data = Signal(w, name="src_data")
        snk_rdy = Signal(name="snk_rdy")
        snk_out = Signal(w, name="snk_out")
        self.ports += [src_rdy, src_data, snk_rdy, snk_out]
        resources = []
        for j, _ in enumerate(sp.get("shared", [])):
            r = Method(name=f"resource{j}")
            with r.body(m):
                pass
            resources.append(r)
        tr_idx = [0]

        def use_resources():
            for j, users in enumerate(sp.get("shared", [])):
                if tr_idx[0] in users:
                    resources[j](m)
            tr_idx[0] += 1

        with Transaction(name="source").body(m, ready=src_rdy):
            st_[0].write(m, d=src_data)
            use_resources()
        for i, link in enumerate(sp["links"]):
            a, b = st_[i], st_[i + 1]
            if link == "direct":
                with Transaction(name=f"link{i}").body(m):
                    b.write(m, d=a.read(m).d + 1)
                    use_resources()
            elif link == "helper":
                h = Method(name=f"helper{i}", i=lay)

                @def_method(m, h)
                def _(d):
                    b.write(m, d=d)

                with Transaction(name=f"link{i}").body(m):
                    h(m, d=a.read(m).d)
                    use_resources()
            else:
                with Transaction(name=f"link{i}").body(m):
                    v = a.read(m).d
                    use_resources()
                    # the branch conditions are plain inputs (local state): a condition computed from data that a
                    # Connect / Forwarder forwards combinationally would make readiness depend on the run signal of
                    # the writer, which the documented rules do not allow
                    sel = Signal(name=f"link_sel{i}")
                    self.ports.append(sel)
                    with condition(m, nonblocking=False, priority=(link == "condition_prio")) as branch:
                        with branch(sel):
                            b.write(m, d=v)
                        with branch(~sel if link == "condition" else C(1)):
                            b.write(m, d=v + 1)
        with Transaction(name="sink").body(m, ready=snk_rdy):
            m.d.comb += snk_out.eq(st_[-1].read(m).d)
            use_resources()
        for j, (what, i) in enumerate(sp["extras"]):
            r = Signal(name=f"x_rdy{j}")
            o = Signal(w, name=f"x_out{j}")
            self.ports += [r, o]
            with Transaction(name=f"extra{j}").body(m, ready=r):
                use_resources()
                if what == "peek":
                    m.d.comb += o.eq(st_[i].peek(m).d)
                else:
                    st_[i].clear(m)
        return m


def run_case(case) -> Result:
    dm = DependencyManager()
    if case.get("gen") == "chain":
        res = Result(labels=["chain"] + sorted(set(case["stages"])) + sorted({"link_" + l for l in case["links"]}))
        with DependencyContext(dm):
            d = Chain(case)
            top = TransactronContextElaboratable(d, dependency_manager=dm)
            frag = Fragment.get(top, None)
            ports = d.ports
        rd = sum(1 for k in case["stages"] if k in ("forwarder", "pipe"))
        if case.get("shared"):
            res.labels.append("shared_resources")
        res.nontrivial = rd >= 1 and (len(case["stages"]) >= 2 or bool(case.get("shared")))
    else:
        an = analyze(case)
        res = Result(labels=["grammar"] + shape_labels(an))
        try:
            with DependencyContext(dm):
                d = Design(case, an)
                top = TransactronContextElaboratable(d, dependency_manager=dm)
                frag = Fragment.get(top, None)
        except Exception as e:  # a rejected well-formed design is C11's business
            res.labels.append("elaboration_failed")
            res.stats["elaboration_failed"] = 1
            return res
        ports = list(d.inp.values()) + list(d.res.values()) + list(d.wit.values())
        rdep = any(b.get("rdep") for b in an.bodies.values())
        nested = any(an.parent[t] is not None for t in an.transactions)
        conflict = any(an.may_conflict(a, b) for i, a in enumerate(an.transactions) for b in an.transactions[i + 1 :])
        res.nontrivial = (rdep or nested) and conflict
    try:
        build_netlist(frag, ports=ports)
    except _nir.CombinationalCycle as e:
        return res.fail("combinational cycle: " + " | ".join(x.strip() for x in str(e).split("\n")[1:5]))
    return res
