"""C41 - data helpers: transpose / transpose_layout, signed_to_int / int_to_signed, align_*, neg, bits_from_int,
make_hashable."""

import copy

import hypothesis.database  # noqa: F401  (otherwise imported lazily by hypothesis, once per forked worker)
from hypothesis import strategies as st

from tv.core import Result, setup_paths

setup_paths()

ID = "C41"
ENGINE = "C"
TECHNIQUE = "differential against independent bit-level / arithmetic definitions; metamorphic (equal inputs) for hashing"
RULE = (
    "case kinds: 'tr' = two-level layout (outer struct|array x inner struct|array, 1-4 x 1-4, leaves unsigned/signed "
    "1-8 bit, small struct or array leaves; different leaf shapes wherever the layout kinds allow) with 1-3 random "
    "bit patterns, transposed as Const or as View (View: simulated combinationally); 'trbad' = a layout violating one "
    "documented requirement (not a layout, union, no fields, inner leaf / union / empty, ragged lengths, different "
    "keys, struct+array mix, same keys in another order); 'num' = xlen 1-64 + integer for signed_to_int/int_to_signed/"
    "neg/bits_from_int and num < 2^24, power 0-12 for align_*; 'hash' = nested value of ints/strs/lists/tuples/dicts/"
    "sets compared with an equal copy built in another insertion order and with a same-shaped value differing in one "
    "leaf.  non-trivial: tr with both dimensions >= 2 and at least two different leaf widths (or a View simulation); "
    "trbad always; num when the sign bit is set / num not aligned; hash when the value contains an unhashable container"
)
ASSUMPTIONS = [
    "amaranth.sim.Simulator and data.Layout.from_bits / Const.as_bits are the trusted base",
    "struct fields are packed LSB-first in declaration order, array elements at index*element width (amaranth.lib.data)",
    "same key set in a different order: the docstring says 'identical keys' - raising ValueError and transposing "
    "correctly are both accepted",
    "make_hashable domain: ints, strs, lists, tuples, dicts with hashable keys, sets of hashables, arbitrarily nested",
    "align_* are called with num >= 0",
    "equal values containing a set with >= 2 elements that hash differently carry the region key "
    "'make_hashable:set-order' (genuine defect, see replays/C41/finding-make-hashable-set-order.json)",
]


def budget(tier):
    return dict(examples=600, seconds=40) if tier == "quick" else dict(examples=8000, seconds=400)


# ------------------------------------------------------------------------------------------------ strategies

_leaf = st.one_of(
    st.builds(lambda w, s: {"w": w, "s": s}, st.integers(1, 8), st.booleans()),
    st.builds(lambda w, s: {"w": w, "s": s}, st.integers(1, 8), st.booleans()),
    st.builds(lambda ws: {"sub": ws}, st.lists(st.integers(1, 4), min_size=1, max_size=3)),
    st.builds(lambda w, n: {"arr": [w, n]}, st.integers(1, 4), st.integers(1, 3)),
)


@st.composite
def _tr(draw):
    outer = draw(st.sampled_from(["struct", "array"]))
    inner = draw(st.sampled_from(["struct", "array"]))
    no, ni = draw(st.integers(1, 4)), draw(st.integers(1, 4))
    uniform = draw(st.integers(0, 5)) == 0
    l0 = draw(_leaf)
    leaves = [[l0 if uniform else draw(_leaf) for _ in range(ni)] for _ in range(no)]
    if inner == "array":
        leaves = [[row[0]] * ni for row in leaves]
    if outer == "array":
        leaves = [leaves[0]] * no
    vals = draw(st.lists(st.integers(0, (1 << 200) - 1), min_size=1, max_size=3))
    return {
        "kind": "tr",
        "outer": outer,
        "inner": inner,
        "leaves": leaves,
        "mode": draw(st.sampled_from(["const", "const", "const", "view"])),
        "vals": vals,
    }


BAD_KINDS = [
    "not-layout",
    "union-outer",
    "empty-outer",
    "leaf-inner",
    "union-inner",
    "empty-inner",
    "ragged-len",
    "ragged-keys",
    "mixed",
    "reordered",
]


@st.composite
def _trbad(draw):
    return {
        "kind": "trbad",
        "bad": draw(st.sampled_from(BAD_KINDS)),
        "outer": draw(st.sampled_from(["struct", "array"])),
        "inner": draw(st.sampled_from(["struct", "array"])),
        "no": draw(st.integers(1, 4)),
        "ni": draw(st.integers(1, 4)),
        "w": draw(st.integers(1, 8)),
        "sel": draw(st.integers(0, 11)),
        "via": draw(st.sampled_from(["layout", "const", "view"])),
    }


@st.composite
def _num(draw):
    xlen = draw(st.one_of(st.integers(1, 8), st.integers(1, 64)))
    raw = draw(st.one_of(st.integers(0, (1 << 64) - 1), st.sampled_from([0, 1, (1 << 64) - 1, 1 << 63, (1 << 63) - 1])))
    power = draw(st.integers(0, 12))
    num = draw(st.one_of(st.integers(0, (1 << 24) - 1), st.integers(0, 64).map(lambda k: k << power)))
    return {
        "kind": "num",
        "xlen": xlen,
        "raw": raw,
        "num": num,
        "power": power,
        "lower": draw(st.integers(0, 70)),
        "length": draw(st.integers(0, 20)),
    }


_hleaf = st.one_of(
    st.builds(lambda v: {"t": "int", "v": v}, st.integers(-3, 40)),
    st.builds(lambda v: {"t": "str", "v": v}, st.sampled_from(["a", "b", "xy", ""])),
)
_hset = st.builds(
    lambda vs: {"t": "set", "c": vs}, st.lists(st.sampled_from([0, 1, 8, 16, 3, 11, 32, 5]), max_size=4, unique=True)
)


def _hcont(children):
    keys = st.sampled_from([0, 1, 2, 3, 7, "p", "q", "r", "s"])

    @st.composite
    def _dict(draw):
        ks = draw(st.lists(keys, max_size=3, unique_by=repr))
        return {"t": "dict", "c": [[k, draw(children)] for k in ks]}

    return st.one_of(
        st.builds(lambda c: {"t": "list", "c": c}, st.lists(children, max_size=3)),
        st.builds(lambda c: {"t": "tuple", "c": c}, st.lists(children, max_size=3)),
        _dict(),
    )


_htree = st.recursive(st.one_of(_hleaf, _hleaf, _hset), _hcont, max_leaves=5)


@st.composite
def _hash(draw):
    return {
        "kind": "hash",
        "val": draw(_hcont(_htree)),
        "perm": draw(st.lists(st.integers(0, 23), min_size=8, max_size=8)),
        "mut": draw(st.integers(0, 63)),
    }


def strategy(tier="quick"):
    return st.one_of(_tr(), _tr(), _trbad(), _num(), _hash(), _hash())


# ------------------------------------------------------------------------------------------------ transpose


def _leaf_shape(lf):
    from amaranth import signed, unsigned
    from amaranth.lib import data

    if "sub" in lf:
        return data.StructLayout({f"s{i}": w for i, w in enumerate(lf["sub"])})
    if "arr" in lf:
        return data.ArrayLayout(lf["arr"][0], lf["arr"][1])
    return signed(lf["w"]) if lf["s"] else unsigned(lf["w"])


def _leaf_width(lf):
    if "sub" in lf:
        return sum(lf["sub"])
    if "arr" in lf:
        return lf["arr"][0] * lf["arr"][1]
    return lf["w"]


def _mk(kind, keys, shapes):
    from amaranth.lib import data

    if kind == "struct":
        return data.StructLayout(dict(zip(keys, shapes)))
    return data.ArrayLayout(shapes[0], len(shapes))


def _keys(kind, n, prefix):
    return [f"{prefix}{i}" for i in range(n)] if kind == "struct" else list(range(n))


def _run_tr(case, res):
    from amaranth import Module, Signal
    from amaranth.lib import data
    from amaranth.sim import Simulator
    from transactron.utils.amaranth_ext.data import transpose, transpose_layout, transpose_layout_with_keys

    outer, inner, leaves = case["outer"], case["inner"], case["leaves"]
    no, ni = len(leaves), len(leaves[0])
    okeys, ikeys = _keys(outer, no, "o"), _keys(inner, ni, "i")
    layout = _mk(outer, okeys, [_mk(inner, ikeys, [_leaf_shape(lf) for lf in row]) for row in leaves])
    # independent construction of the transposed layout and of the bit permutation
    exp_layout = _mk(inner, ikeys, [_mk(outer, okeys, [_leaf_shape(leaves[o][i]) for o in range(no)]) for i in range(ni)])
    widths = [[_leaf_width(lf) for lf in row] for row in leaves]
    total = sum(map(sum, widths))
    src_off, off = {}, 0
    for o in range(no):
        for i in range(ni):
            src_off[o, i] = off
            off += widths[o][i]

    def expected_bits(v):
        out, pos = 0, 0
        for i in range(ni):
            for o in range(no):
                w = widths[o][i]
                out |= ((v >> src_off[o, i]) & ((1 << w) - 1)) << pos
                pos += w
        return out

    res.labels += [f"tr:{outer}-of-{inner}", f"tr:{case['mode']}"]
    got_layout, got_o, got_i = transpose_layout_with_keys(layout)
    if got_layout != exp_layout:
        return res.fail(f"transpose_layout({layout}) = {got_layout}, expected {exp_layout}")
    if list(got_o) != okeys or list(got_i) != ikeys:
        return res.fail(f"transpose_layout_with_keys keys {got_o}/{got_i}, expected {okeys}/{ikeys}")
    back = transpose_layout(transpose_layout(layout))
    if back != layout:
        return res.fail(f"transposing twice gives {back}, original {layout}")
    vals = [v & ((1 << total) - 1) for v in case["vals"]]
    if case["mode"] == "const":
        for v in vals:
            c = layout.from_bits(v)
            t = transpose(c)
            if not isinstance(t, data.Const) or t.shape() != exp_layout:
                return res.fail(f"transpose(Const) returned {t!r}, expected a Const over {exp_layout}")
            if t.as_bits() != expected_bits(v):
                return res.fail(f"transpose({c}) has bits {t.as_bits():#x}, expected {expected_bits(v):#x}")
            # the documented element-wise law, through the public indexing API
            for o, ok in enumerate(okeys if v == vals[0] else []):
                for i, ik in enumerate(ikeys):
                    a, b = c[ok][ik], t[ik][ok]
                    a = a.as_bits() if isinstance(a, data.Const) else a
                    b = b.as_bits() if isinstance(b, data.Const) else b
                    if a != b:
                        return res.fail(f"transpose(c)[{ik}][{ok}] = {b} but c[{ok}][{ik}] = {a}")
            res.stats["valuations"] = res.stats.get("valuations", 0) + 1
    else:
        m = Module()
        sig = Signal(layout)
        tv = transpose(sig)
        if not isinstance(tv, data.View) or tv.shape() != exp_layout:
            return res.fail(f"transpose(View) returned {tv!r}, expected a View over {exp_layout}")
        out = Signal(total)
        cells = {}
        for o, ok in enumerate(okeys):
            for i, ik in enumerate(ikeys):
                cells[o, i] = Signal(widths[o][i], name=f"cell_{o}_{i}")
                m.d.comb += cells[o, i].eq(tv[ik][ok])
        m.d.comb += out.eq(tv.as_value())
        sim = Simulator(m)
        bad = []

        async def tb(ctx):
            for v in vals:
                ctx.set(sig.as_value(), v)
                got = ctx.get(out)
                if got != expected_bits(v):
                    bad.append(f"transpose(view) for bits {v:#x} evaluates to {got:#x}, expected {expected_bits(v):#x}")
                    return
                for (o, i), s in cells.items():
                    e = (v >> src_off[o, i]) & ((1 << widths[o][i]) - 1)
                    if ctx.get(s) != e:
                        bad.append(f"transpose(view)[{ikeys[i]}][{okeys[o]}] = {ctx.get(s)}, view[{okeys[o]}][{ikeys[i]}] = {e}")
                        return
                res.stats["valuations"] = res.stats.get("valuations", 0) + 1

        sim.add_testbench(tb)
        sim.run()
        if bad:
            return res.fail(bad[0])
    distinct_w = len({w for row in widths for w in row})
    if no >= 2 and ni >= 2:
        res.labels.append("tr:2d")
    if distinct_w >= 2:
        res.labels.append("tr:mixed-widths")
    res.nontrivial = (no >= 2 and ni >= 2 and distinct_w >= 2) or (case["mode"] == "view" and no * ni >= 2)
    return res


def _run_trbad(case, res):
    from amaranth import Signal
    from amaranth.lib import data
    from transactron.utils.amaranth_ext.data import transpose, transpose_layout

    bad, outer, inner, no, ni, w, sel = (case[k] for k in ("bad", "outer", "inner", "no", "ni", "w", "sel"))
    okeys = _keys(outer, no, "o")
    either = False

    def inner_l(keys=None, kind=None, width=w):
        keys = _keys(kind or inner, ni, "i") if keys is None else keys
        return _mk(kind or inner, keys, [width] * len(keys)) if keys else (
            data.StructLayout({}) if (kind or inner) == "struct" else data.ArrayLayout(width, 0)
        )

    if bad == "not-layout":
        flex = data.FlexibleLayout(max(inner_l().size, 1), {"a": data.Field(inner_l(), 0)})
        layout = [w, flex, "not a layout"][sel % 3]
    elif bad == "union-outer":
        layout = data.UnionLayout({f"o{i}": inner_l() for i in range(no)})
    elif bad == "empty-outer":
        layout = data.StructLayout({}) if outer == "struct" else data.ArrayLayout(inner_l(), 0)
    elif bad == "leaf-inner":
        if outer == "struct":
            shapes = [inner_l() for _ in range(no)]
            shapes[sel % no] = w
            layout = _mk("struct", okeys, shapes)
        else:
            layout = data.ArrayLayout(w, no)
    elif bad == "union-inner":
        u = data.UnionLayout({f"i{i}": w for i in range(ni)})
        if outer == "struct":
            shapes = [inner_l(kind="struct") for _ in range(no)]
            shapes[sel % no] = u
            layout = _mk("struct", okeys, shapes)
        else:
            layout = data.ArrayLayout(u, no)
    elif bad == "empty-inner":
        if outer == "struct" and sel % 2 and no >= 2:
            # only the first field is empty -> "fields have no keys" or "different keys", ValueError either way
            layout = _mk("struct", okeys, [inner_l(keys=[])] + [inner_l() for _ in range(no - 1)])
        else:
            layout = _mk(outer, okeys, [inner_l(keys=[])] * no)
    elif bad in ("ragged-len", "ragged-keys", "mixed", "reordered"):
        no = max(no, 2)
        okeys = _keys("struct", no, "o")
        j = 1 + sel % (no - 1) if sel % 3 else 0  # which field deviates (sometimes the first one)
        shapes = [inner_l() for _ in range(no)]
        if bad == "ragged-len":
            shapes = [inner_l(kind="array") for _ in range(no)]
            shapes[j] = data.ArrayLayout(w, ni + 1 + sel % 2)
        elif bad == "ragged-keys":
            ks = _keys("struct", ni, "i")
            other = list(ks)
            if sel % 2:
                other[sel % ni] = "zz"  # same number of keys, one renamed
            else:
                other = other + ["zz"]
            shapes = [_mk("struct", ks, [w] * ni) for _ in range(no)]
            shapes[j] = _mk("struct", other, [w] * len(other))
        elif bad == "mixed":
            shapes = [_mk("array", list(range(ni)), [w] * ni) for _ in range(no)]
            shapes[j] = _mk("struct", [str(i) for i in range(ni)] if sel % 2 else _keys("struct", ni, "i"), [w] * ni)
        else:
            ni = max(ni, 2)
            ks = _keys("struct", ni, "i")
            shapes = [_mk("struct", ks, [w] * ni) for _ in range(no)]
            rot = ks[1:] + ks[:1]
            shapes[j] = _mk("struct", rot, [w] * ni)
            either = True
        layout = _mk("struct", okeys, shapes)
    else:
        raise AssertionError(bad)

    res.labels += [f"trbad:{bad}", f"trbad:via-{case['via']}"]
    res.nontrivial = True
    via = case["via"] if isinstance(layout, data.Layout) and not isinstance(layout, data.FlexibleLayout) else "layout"
    try:
        if via == "layout":
            out = transpose_layout(layout)
        elif via == "const":
            out = transpose(layout.from_bits(0))
        else:
            out = transpose(Signal(layout))
        raised = None
    except ValueError as e:
        out, raised = None, e
    if raised is None:
        if either:
            res.labels.append("trbad:reordered-accepted")
            return res
        return res.fail(f"transpose ({via}) of malformed layout {layout} ({bad}) returned {out!r}, documented ValueError")
    if either:
        res.labels.append("trbad:reordered-raised")
    return res


# ------------------------------------------------------------------------------------------------ numeric helpers


def _run_num(case, res):
    from transactron.utils.data_repr import (
        align_down_to_power_of_two,
        align_to_power_of_two,
        bits_from_int,
        int_to_signed,
        neg,
        signed_to_int,
    )

    n = case["xlen"]
    u = case["raw"] & ((1 << n) - 1)
    x = u - (1 << n) if u >> (n - 1) else u  # the signed integer in [-2^(n-1), 2^(n-1)) with representation u
    res.labels.append("num:sign-bit-set" if x < 0 else "num:non-negative")
    s = signed_to_int(u, n)
    if s != x:
        return res.fail(f"signed_to_int({u}, {n}) = {s}, expected {x}")
    r = int_to_signed(x, n)
    if r != u:
        return res.fail(f"int_to_signed({x}, {n}) = {r}, expected {u}")
    if int_to_signed(signed_to_int(u, n), n) != u or signed_to_int(int_to_signed(x, n), n) != x:
        return res.fail(f"signed_to_int / int_to_signed are not inverse for xlen {n}, value {x}")
    ng = neg(u, n)
    if not (0 <= ng < (1 << n)) or (ng + u) % (1 << n) != 0:
        return res.fail(f"neg({u}, {n}) = {ng}")
    lo, ln = case["lower"], case["length"]
    b = bits_from_int(case["raw"], lo, ln)
    eb = sum(((case["raw"] >> (lo + k)) & 1) << k for k in range(ln))
    if b != eb:
        return res.fail(f"bits_from_int({case['raw']}, {lo}, {ln}) = {b}, expected {eb}")

    num, p = case["num"], case["power"]
    step = 1 << p
    up, down = align_to_power_of_two(num, p), align_down_to_power_of_two(num, p)
    e_up, e_down = -(-num // step) * step, (num // step) * step
    if up != e_up:
        return res.fail(f"align_to_power_of_two({num}, {p}) = {up}, expected {e_up}")
    if down != e_down:
        return res.fail(f"align_down_to_power_of_two({num}, {p}) = {down}, expected {e_down}")
    aligned = num % step == 0
    res.labels.append("num:aligned" if aligned else "num:unaligned")
    res.nontrivial = x < 0 or (not aligned and p > 0)
    return res


# ------------------------------------------------------------------------------------------------ make_hashable


def _build(t, perm, mut, counter):
    """Build the python value; `perm` steers insertion orders, `mut` = index of the int leaf to alter (or None)."""
    k = t["t"]
    if k == "int":
        idx = counter[0]
        counter[0] += 1
        return t["v"] + (100 if idx == mut else 0)
    if k == "str":
        return t["v"]
    if k == "set":
        items = list(t["c"])
        if perm is not None and items:
            r = perm[counter[1] % len(perm)] % len(items)
            counter[1] += 1
            items = items[r:] + items[:r]
            if perm[counter[1] % len(perm)] % 2:
                items.reverse()
        s = set()
        for v in items:
            s.add(v)
        return s
    if k in ("list", "tuple"):
        vals = [_build(c, perm, mut, counter) for c in t["c"]]
        return vals if k == "list" else tuple(vals)
    pairs = [(key, _build(c, perm, mut, counter)) for key, c in t["c"]]
    if perm is not None and pairs:
        r = perm[counter[1] % len(perm)] % len(pairs)
        counter[1] += 1
        pairs = pairs[r:] + pairs[:r]
        if perm[counter[1] % len(perm)] % 2:
            pairs.reverse()
    return dict(pairs)


def _count(t, what):
    if t["t"] == what:
        return 1
    if t["t"] in ("list", "tuple"):
        return sum(_count(c, what) for c in t["c"])
    if t["t"] == "dict":
        return sum(_count(c, what) for _, c in t["c"])
    return 0


def _set_order_matters(t):
    """Region key helper: the value contains a set with >= 2 elements (iteration order can depend on insertion)."""
    if t["t"] == "set":
        return len(t["c"]) >= 2
    if t["t"] in ("list", "tuple"):
        return any(_set_order_matters(c) for c in t["c"])
    if t["t"] == "dict":
        return any(_set_order_matters(c) for _, c in t["c"])
    return False


def _run_hash(case, res):
    from transactron.utils.data_repr import make_hashable

    t = case["val"]
    a = _build(t, None, None, [0, 0])
    b = _build(t, case["perm"], None, [0, 0])
    n_int = _count(t, "int")
    has_set = _set_order_matters(t)
    vkey = "make_hashable:set-order" if has_set else None
    res.labels.append(f"hash:top-{t['t']}")
    for c in ("dict", "set", "list"):
        if _count(t, c):
            res.labels.append(f"hash:has-{c}")
    if a != b:
        raise AssertionError("harness: reordered copy is not equal")
    a0 = copy.deepcopy(a)
    ha, hb = make_hashable(a), make_hashable(b)
    if a != a0:
        return res.fail(f"make_hashable modified its argument {a0!r}")
    try:
        hash_a, hash_b = hash(ha), hash(hb)
    except TypeError as e:
        return res.fail(f"make_hashable({a!r}) = {ha!r} is not hashable: {e}")
    if ha != hb or hash_a != hash_b:
        return res.fail(f"equal values {a!r} and {b!r} (other insertion order) map to {ha!r} and {hb!r}", vkey=vkey)
    if make_hashable(copy.deepcopy(a)) != ha:
        return res.fail(f"make_hashable of a deep copy of {a!r} differs", vkey=vkey)
    if n_int:
        c = _build(t, None, case["mut"] % n_int, [0, 0])
        if c != a:
            res.labels.append("hash:mutated-leaf")
            hc = make_hashable(c)
            if hc == ha:
                return res.fail(f"different values {a!r} and {c!r} both map to {ha!r}")
    res.nontrivial = True  # the top level is always an unhashable container or contains one
    try:
        hash(a)
        res.nontrivial = False
        res.labels.append("hash:already-hashable")
    except TypeError:
        pass
    return res


def run_case(case) -> Result:
    res = Result(labels=[case["kind"]])
    return {"tr": _run_tr, "trbad": _run_trbad, "num": _run_num, "hash": _run_hash}[case["kind"]](case, res)
