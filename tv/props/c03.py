"""C03 - a transaction runs only when it is fully enabled."""

from hypothesis import strategies as st

from tv.designs import gen_deep_nesting_spec, gen_spec
from tv.props import c12
from tv.props._core_a import run_design, tier_opts

ID = "C03"
ENGINE = "A"
RULE = (
    "case = generated design (as C01, with validate_arguments predicates 'arg != k', nested transactions and "
    "run-dependent readiness along schedule_before) under all / 256 drawn input valuations; oracle = run(T) implies: own "
    "ready input and placement conditions, every method of the static call tree ready (also calls under false "
    "conditions or with enable_call=0), validate_arguments true for the argument of every enabled call chain, and the "
    "enclosing body / schedule_before source runs (observed); non-trivial = some valuation where a transaction is "
    "blocked ONLY by a callee that is not ready (incl. conditional/disabled calls) or only by argument validation"
)
ASSUMPTIONS = [
    "amaranth.sim.Simulator is the trusted execution model",
    "method readiness is the generated ready input (and the observed run of the declared dependency), never a library signal",
]
TECHNIQUE = "grammar-based design generation + exhaustive input valuations against a semantic predicate"


def budget(tier):
    return dict(examples=70, seconds=45) if tier == "quick" else dict(examples=300, seconds=420)


def strategy(tier):
    general = gen_spec(**{**tier_opts(tier), **dict(allow_rels=True, allow_rdep=True, allow_nm=True)})
    # one case in five is a condition() block reached through a guarded call chain (C12's generator): its branches
    # are nested transactions, for which this property demands: run(branch) implies the enclosing body runs, the branch condition (its ready) holds and its callees are ready
    cond = c12.strategy(tier).map(lambda sp: {"gen": "condition", "spec": sp})
    # one case in ten: three levels of nested bodies with callers (and conflicts) on every level
    deep = gen_deep_nesting_spec()
    return st.integers(0, 9).flatmap(lambda k: cond if k >= 8 else (deep if k == 7 else general))


def run_case(case):
    if case.get("gen") == "condition":
        res = c12.run_case(case["spec"])
        res.labels = ["condition_block"] + res.labels
        if res.violation is not None and not res.violation.startswith(('P1', 'P3', 'branch')):
            res.violation = None  # the other clauses of C12 are not this property's business
        res.nontrivial = res.nontrivial and "guarded_call" in res.labels
        return res
    def extra(ob, orc):
        orc.classify_blocking(ob)
        return None

    res, an, orc, exc = run_design(case, ["c03"], extra_visit=extra)
    if orc is None:
        return res
    res.stats["blocked_only_by_callee"] = orc.stats["blocked_by_callee"]
    res.stats["blocked_only_by_validation"] = orc.stats["blocked_by_validation"]
    if orc.stats["blocked_by_validation"]:
        res.labels.append("blocked_by_validation")
    if orc.stats["blocked_by_callee"]:
        res.labels.append("blocked_by_callee")
    for k in ("callee_parent", "ready_dependency"):
        if orc.stats["blocked_by_" + k]:
            res.labels.append("blocked_by_" + k)
    res.nontrivial = any(
        orc.stats["blocked_by_" + k] > 0 for k in ("callee", "validation", "callee_parent", "ready_dependency")
    )
    return res
