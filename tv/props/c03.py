"""C03 - a transaction runs only when it is fully enabled."""

from tv.designs import gen_spec
from tv.props._core_a import run_design, tier_opts

ID = "C03"
ENGINE = "A"
RULE = (
    "case = generated design (as C01, with validate_arguments predicates 'arg != k', nested transactions and "
    "run-dependent readiness along schedule_before) under all / 256 drawn input valuations; oracle = run(T) implies: own "
    "ready input and placement conditions, every method of the static call tree ready (also calls under false "
    "conditions or with enable_call=0), validate_arguments true for the argument of every enabled call chain, and the "
    "enclosing body / schedule_before source runs (observed); non-trivial = some valuation where a transaction is "
    "blocked ONLY by a callee that is not ready (incl. conditional/disabled calls) or only by argument validation"
)
ASSUMPTIONS = [
    "amaranth.sim.Simulator is the trusted execution model",
    "method readiness is the generated ready input (and the observed run of the declared dependency), never a library signal",
]
TECHNIQUE = "grammar-based design generation + exhaustive input valuations against a semantic predicate"


def budget(tier):
    return dict(examples=25, seconds=45) if tier == "quick" else dict(examples=300, seconds=420)


def strategy(tier):
    return gen_spec(**{**tier_opts(tier), **dict(allow_rels=True, allow_rdep=True)})


def run_case(case):
    def extra(ob, orc):
        orc.classify_blocking(ob)
        return None

    res, an, orc, exc = run_design(case, ["c03"], extra_visit=extra)
    if orc is None:
        return res
    res.stats["blocked_only_by_callee"] = orc.stats["blocked_by_callee"]
    res.stats["blocked_only_by_validation"] = orc.stats["blocked_by_validation"]
    if orc.stats["blocked_by_validation"]:
        res.labels.append("blocked_by_validation")
    if orc.stats["blocked_by_callee"]:
        res.labels.append("blocked_by_callee")
    res.nontrivial = orc.stats["blocked_by_callee"] > 0 or orc.stats["blocked_by_validation"] > 0
    return res
