"""C25 - PriorityEncoderAllocator never double-allocates."""

from hypothesis import strategies as st

from tv.core import Result
from tv.cyc import Harness, step
from tv.phases import phased_history

ID = "C25"
ENGINE = "B"
TECHNIQUE = "cycle driver + free-mask reference model"
RULE = (
    "case = (entries 1..9 (thorough ..12), alloc_ways 1..3 (thorough ..4), free_ways 1..3, init = default -1 | all "
    "free | none free | random mask, history of per-cycle request vectors alloc_i / free_i(selector into the "
    "currently allocated identifiers, distinct per cycle) / peek / replace(mask) / clear); model = free mask stepped "
    "with the observed accepted set; non-trivial = some cycle requested >= 2 alloc ways while 1 <= free identifiers "
    "< requested ways (so that some ways must be granted and others refused) AND an identifier was freed and later "
    "handed out again"
)
ASSUMPTIONS = [
    "amaranth.sim.Simulator is the trusted execution model",
    "readiness is judged behaviourally: a requested call that is not accepted counts as 'not ready'",
    "only identifiers allocated before the cycle are freed, each on at most one free way per cycle",
    "init is -1 (documented default) or a mask within range(2**entries)",
    "free, peek are unconditionally ready; replace and clear conflict (clear calls replace): when both are "
    "requested exactly one of them runs, which one is not specified",
    "a replace/clear accepted in a cycle determines the next mask entirely ('replaces the bitmask')",
    "which free identifier an alloc way returns is not specified beyond: free before the cycle, distinct per cycle",
]


def budget(tier):
    return dict(examples=100, seconds=40) if tier == "quick" else dict(examples=1000, seconds=420)


@st.composite
def strategy(draw, tier="quick"):
    emax, awmax = (9, 3) if tier == "quick" else (12, 4)
    entries = draw(st.integers(1, emax))
    aw = draw(st.integers(1, awmax))
    fw = draw(st.integers(1, 3))
    full = (1 << entries) - 1
    init = draw(st.one_of(st.just(-1), st.just(-1), st.integers(0, full), st.just(0), st.just(full)))
    hi = 50 if tier == "quick" else 160
    methods = {f"alloc{i}": [] for i in range(aw)}
    # in one case of three, alloc way 0 has a second, independent caller (io "alloc0_b"): an alloc way is an exclusive
    # method, two simultaneous callers must not both be served (they would receive the same identifier)
    second = draw(st.integers(0, 2)) == 0
    if second:
        methods["alloc0_b"] = []
    methods.update({f"free{i}": [256] for i in range(fw)})
    methods.update({"peek": [], "replace": [full + 1, 6], "clear": [6]})
    ways = lambda a, f: {**{f"alloc{i}": a for i in range(aw)}, **({"alloc0_b": a} if second else {}), **{f"free{i}": f for i in range(fw)}}  # noqa: E731
    profiles = {
        "fill": {**ways(6, 1), "peek": 6},
        "churn": {**ways(6, 4), "peek": 6, "replace": 2, "clear": 2},
        "drain": {**ways(2, 6), "peek": 6, "replace": 1, "clear": 1},
    }
    hist = draw(phased_history(methods, profiles, 8, hi))
    return {"entries": entries, "alloc_ways": aw, "free_ways": fw, "init": init, "second": second, "history": hist}


def run_case(case) -> Result:
    from transactron.lib.allocators import PriorityEncoderAllocator

    E, aw, fw, init = case["entries"], case["alloc_ways"], case["free_ways"], case["init"]
    full = (1 << E) - 1
    init_mask = init & full
    res = Result(labels=[f"ways{aw}", "init_default" if init == -1 else "init_mask"])
    second = bool(case.get("second"))
    h = Harness(lambda: PriorityEncoderAllocator(E, aw, fw, init=init), second_callers=("alloc0",) if second else ())
    flags = dict(
        scarce=False, exhausted=False, reuse=False, multi_alloc=False, multi_free=False, alloc_and_free=False,
        replace=False, clear=False, clear_vs_replace=False, higher_way_alone=False,
    )

    async def tb(ctx):
        ios = h.ios(["alloc", "free", "peek", "replace", "clear"] + (["alloc0_b"] if second else []))
        free = init_mask
        freed_once = 0  # identifiers that were returned through free at some point and are free now
        for cyc, rec in enumerate(case["history"]):
            nfree = bin(free).count("1")
            reqs = {}
            for i in range(aw):
                if rec.get(f"alloc{i}") is not None:
                    reqs[f"alloc{i}"] = {}
            if second and rec.get("alloc0_b") is not None:
                reqs["alloc0_b"] = {}
            cand = [k for k in range(E) if not (free >> k) & 1]
            for i in range(fw):
                a = rec.get(f"free{i}")
                if a is not None and cand:
                    reqs[f"free{i}"] = {"ident": cand.pop(a[0] % len(cand))}
            if rec.get("peek") is not None:
                reqs["peek"] = {}
            # replace / clear are thinned out (raw selector == 0) so that histories are not reset all the time
            # (thinning value 1 of replace requests clear in the same cycle: the two conflict)
            if rec.get("replace") is not None and rec["replace"][1] <= 1:
                reqs["replace"] = {"mask": rec["replace"][0]}
                if rec["replace"][1] == 1:
                    reqs["clear"] = {}
            if rec.get("clear") is not None and rec["clear"][0] == 0:
                reqs["clear"] = {}
            results, _ = await step(ctx, ios, reqs)
            res.stats["cycles"] = res.stats.get("cycles", 0) + 1
            where = f"cycle {cyc} (free mask {free:0{E}b})"
            for nm, r in results.items():
                if r is not None and nm not in reqs:
                    return res.fail(f"{where}: {nm} ran without being requested")
            # two callers of alloc way 0: exactly one of the requesters is served when the way is ready
            if second:
                req0 = [c for c in ("alloc0", "alloc0_b") if c in reqs]
                acc0 = [c for c in req0 if results[c] is not None]
                want = min(1, len(req0)) if nfree >= 1 else 0
                if len(acc0) != want:
                    return res.fail(
                        f"{where}: callers {req0} request alloc way 0 with {nfree} free identifiers: {len(acc0)} calls "
                        f"accepted {acc0}, an exclusive method serves exactly {want}"
                    )
                if len(req0) == 2:
                    flags["two_callers_contend"] = True
                # from here on way 0 is judged through whichever caller was served
                if req0:
                    reqs["alloc0"] = {}
                    results["alloc0"] = results[acc0[0]] if acc0 else None
                reqs.pop("alloc0_b", None)
                results.pop("alloc0_b", None)
            # alloc ways
            got = []
            n_req = sum(1 for i in range(aw) if f"alloc{i}" in reqs)
            for i in range(aw):
                nm = f"alloc{i}"
                if nm not in reqs:
                    continue
                r = results[nm]
                ready = nfree >= i + 1
                if (r is not None) != ready:
                    return res.fail(
                        f"{where}: {nm} requested with {nfree} free identifiers: accepted={r is not None}, "
                        f"expected ready={ready}"
                    )
                if r is not None:
                    k = r["ident"]
                    if not (0 <= k < E) or not (free >> k) & 1:
                        return res.fail(f"{where}: {nm} returned identifier {k} which is not free")
                    if k in got:
                        return res.fail(f"{where}: identifier {k} returned on two alloc ways in one cycle")
                    got.append(k)
            if n_req >= 2 and 1 <= nfree < n_req:
                flags["scarce"] = True
            if n_req and nfree == 0:
                flags["exhausted"] = True
            if len(got) >= 2:
                flags["multi_alloc"] = True
            if got and "alloc0" not in reqs:
                flags["higher_way_alone"] = True
            if any((freed_once >> k) & 1 for k in got):
                flags["reuse"] = True
            # peek
            if "peek" in reqs:
                if results["peek"] is None:
                    return res.fail(f"{where}: peek requested but not accepted")
                if results["peek"]["mask"] != free:
                    return res.fail(f"{where}: peek returned {results['peek']['mask']:0{E}b}")
            nf = free
            for k in got:
                nf &= ~(1 << k)
                freed_once &= ~(1 << k)
            nfreed = 0
            for i in range(fw):
                nm = f"free{i}"
                if nm in reqs:
                    if results[nm] is None:
                        return res.fail(f"{where}: {nm}(ident={reqs[nm]['ident']}) requested but not accepted")
                    nf |= 1 << reqs[nm]["ident"]
                    freed_once |= 1 << reqs[nm]["ident"]
                    nfreed += 1
            if nfreed >= 2:
                flags["multi_free"] = True
            if nfreed and got:
                flags["alloc_and_free"] = True
            rep, clr = results["replace"] is not None, results["clear"] is not None
            if rep and clr:
                return res.fail(f"{where}: replace and clear both ran in one cycle")
            if ("replace" in reqs or "clear" in reqs) and not (rep or clr):
                return res.fail(f"{where}: replace/clear requested but neither was accepted")
            if "replace" in reqs and "clear" in reqs:
                flags["clear_vs_replace"] = True
            if rep:
                nf = reqs["replace"]["mask"]
                freed_once = 0
                flags["replace"] = True
            if clr:
                nf = init_mask
                freed_once = 0
                flags["clear"] = True
            free = nf
        # final state through peek
        results, _ = await step(ctx, ios, {"peek": {}})
        if results["peek"] is None or results["peek"]["mask"] != free:
            return res.fail(f"final peek returned {results['peek']}, model mask {free:0{E}b}")

    h.run(tb)
    for k, v in flags.items():
        if v:
            res.labels.append(k)
    res.nontrivial = flags["scarce"] and flags["reuse"]
    return res
