"""C40 - structured assignment `assign` copies exactly the selected fields (or raises)."""

import hypothesis.database  # noqa: F401  (otherwise imported lazily by hypothesis, once per forked worker)
from hypothesis import strategies as st

from tv.core import Result, setup_paths

setup_paths()

ID = "C40"
ENGINE = "C"
TECHNIQUE = "independent recursive reference matcher + combinational simulation of the generated statements"
RULE = (
    "case = (lhs tree, rhs tree, fields, reset bits, 2-3 rhs valuations).  An abstract shape (leaf 1-6 bit "
    "signed/unsigned | struct | array | union, depth <= 3) is drawn for the left side; the right side is a mutated copy "
    "(field dropped / added / renamed, width or signedness changed, array length changed, fields reordered, aggregate "
    "<-> leaf of the same width, union <-> one of its members wrapped in a struct); every aggregate is materialised "
    "as a View over a Signal, a dict / list of separately materialised children, (rhs only) a data.Const, python ints "
    "or Const leaves, or an ArrayProxy (Array of 1-3 equal-layout views of nested structs, indexed by a signal; the "
    "selected element is the storage).  Scenarios: general (70%), union against {member: value} dicts (20%), "
    "single-value Views (one-field struct / one-element array chains) against plain values (10%).  fields = one of "
    "the four AssignType modes, a list of names (sometimes unknown ones), or a nested mapping.  Reference = recursive "
    "matcher written from the assign docstring -> must-raise | must-succeed | either (docstring silent), plus the "
    "(lhs node, rhs node) pairs; on success `m.d.comb += assign(...)` is simulated and every lhs storage bit must "
    "equal the paired rhs bit or its reset value.  non-trivial = both sides field-containing with different key sets "
    "somewhere (partial overlap), decided outcome (not 'either'), and either a simulated success with >= 2 pairs or a "
    "required raise"
)
ASSUMPTIONS = [
    "amaranth.sim.Simulator is the trusted execution model; un-driven bits of a comb signal keep their init value",
    "field-containing = struct/array Views and Consts, dicts, lists, ArrayProxies of struct Views (docstring: 'this "
    "includes' Views and dicts; arrays, lists and Consts are exercised by test_assign)",
    "unions follow test_assign: union View <-> singleton mapping recurses into that member, non-singleton or unknown "
    "member raises; a union View against anything else is a single value",
    "any ValueError / KeyError / TypeError (or other Exception) counts as 'raises'",
    "where the docstring is silent both outcomes are accepted and labelled 'soft:*': no names selected, "
    "same width but different shape/signedness, python int against a View, width of Const leaves, non-AssignType "
    "`fields` reaching a non-structure, mapping `fields` lacking the union member, ArrayProxy against ints/Consts "
    "or used as one value (test_assign: 'Arrays are troublesome and defeat some checks')",
    "failures whose verdict hinges on a single-value View with mismatching width carry the region key "
    "a width mismatch behind an unwrapped single-field View is accepted either way ('soft'): docstring and established use disagree",
]

MODES = ["COMMON", "LHS", "RHS", "ALL"]


def budget(tier):
    return dict(examples=1500, seconds=40) if tier == "quick" else dict(examples=10000, seconds=400)


# ===================================================================================================== generation
# abstract shape: ["leaf", w, signed] | ["struct", [[name, shape]...]] | ["array", shape, n] | ["union", [[name, shape]...]]

NAMES = ["a", "b", "c", "d", "e"]


def _width(sh):
    if sh[0] == "leaf":
        return sh[1]
    if sh[0] == "struct":
        return sum(_width(c) for _, c in sh[1])
    if sh[0] == "array":
        return _width(sh[1]) * sh[2]
    return max([_width(c) for _, c in sh[1]] or [0])


@st.composite
def _shape(draw, depth, kinds=("leaf", "leaf", "struct", "struct", "struct", "struct", "array", "union")):
    k = "leaf" if depth <= 0 else draw(st.sampled_from(kinds))
    if k == "leaf":
        return ["leaf", draw(st.integers(1, 6)), draw(st.integers(0, 3)) == 0]
    if k == "array":
        return ["array", draw(_shape(depth - 1)), draw(st.integers(1, 3))]
    n = draw(st.integers(1, 3))
    names = draw(st.lists(st.sampled_from(NAMES), min_size=n, max_size=n, unique=True))
    return [k, [[nm, draw(_shape(depth - 1))] for nm in names]]


# weights of the local changes applied to a struct/union node that is hit (see _mutate)
_AGG_MUT = ["drop", "drop", "add", "add", "rename", "rename", "rotate", "kind", "replace", "flatten"]


@st.composite
def _mutate(draw, sh, rate, union_to_dict=False, force=None, fdepth=0):
    """A copy of `sh` in which every node is changed with probability rate/16 (`force`: key-set change applied to the
    struct nodes at depth `fdepth`)."""
    sub_force = force if fdepth > 0 else None
    force = force if fdepth == 0 else None
    hit = draw(st.integers(0, 15)) < rate or (force is not None and sh[0] == "struct")
    k = sh[0]
    if k == "leaf":
        if not hit:
            return sh
        m = draw(st.sampled_from([0, 0, 1, 2, 3, 3]))
        if m == 0:
            return ["leaf", max(1, sh[1] + draw(st.sampled_from([-1, 1, 2]))), sh[2]]
        if m == 1:
            return ["leaf", sh[1], not sh[2]]
        if m == 2:
            return ["struct", [[draw(st.sampled_from(NAMES)), sh]]]
        return ["leaf", draw(st.integers(1, 6)), sh[2]]
    if k == "union" and union_to_dict and draw(st.integers(0, 3)):
        # the right side offers {member: value}: a python dict (marker "py") with one (rarely two / unknown) member
        f = [list(x) for x in sh[1]]
        r = draw(st.integers(0, 9))
        pick = [f[draw(st.integers(0, len(f) - 1))]]
        if r == 0 and len(f) > 1:
            pick = f[:2]
        elif r == 1:
            pick = [["zz", pick[0][1]]]
        return ["struct", [[nm, draw(_mutate(c, rate))] for nm, c in pick], "py"]
    if hit:
        if k in ("struct", "union"):
            m = force if force is not None and k == "struct" else draw(st.sampled_from(_AGG_MUT))
            f = [list(x) for x in sh[1]]
            free = [n for n in NAMES if n not in [x[0] for x in f]]
            if m == "drop" and len(f) > 1:
                f.pop(draw(st.integers(0, len(f) - 1)))
            elif m == "add" and free:
                f.insert(draw(st.integers(0, len(f))), [draw(st.sampled_from(free)), draw(_shape(1))])
            elif m == "rename" and free:
                f[draw(st.integers(0, len(f) - 1))][0] = draw(st.sampled_from(free))
            elif m == "rotate" and len(f) > 1:
                r = draw(st.integers(1, len(f) - 1))
                f = f[r:] + f[:r]
            elif m == "kind":
                if k == "union":
                    return ["struct", [f[draw(st.integers(0, len(f) - 1))]]]
                return ["union", f]
            elif m == "replace":
                f[draw(st.integers(0, len(f) - 1))][1] = draw(_shape(1))
            elif m == "flatten":
                return ["leaf", max(1, _width(sh)), False]
            return [k, [[nm, draw(_mutate(c, max(rate - 2, 0), union_to_dict))] for nm, c in f]]
        m = draw(st.integers(0, 3))
        if m < 2:
            return ["array", sh[1], max(1, sh[2] + draw(st.sampled_from([-1, 1])))]
        if m == 2:
            return ["struct", [[nm, sh[1]] for nm in NAMES[: sh[2]]]]
        return ["leaf", max(1, _width(sh)), False]
    if k == "array":
        return ["array", draw(_mutate(sh[1], rate, union_to_dict, sub_force, fdepth - 1)), sh[2]]
    return [k, [[nm, draw(_mutate(c, rate, union_to_dict, sub_force, fdepth - 1))] for nm, c in sh[1]]]


@st.composite
def _materialise(draw, sh, side, py_bias):
    """python-level tree: {"t":"hw","form":"sig"|"const"|"proxy","lay":shape,...} | {"t":"dict","f":[[k,node]]} |
    {"t":"list","c":[node]} | {"t":"int","v":int}"""
    k = sh[0]
    if k == "leaf":
        if side == "rhs":
            r = draw(st.integers(0, 11))
            if r == 0:
                lim = 1 << sh[1]
                return {"t": "int", "v": draw(st.integers(-lim, 2 * lim))}
            if r == 1:
                return {"t": "hw", "form": "const", "lay": sh}
        return {"t": "hw", "form": "sig", "lay": sh}
    forced_py = len(sh) > 2 and sh[2] == "py"
    if k in ("struct", "array") and (forced_py or draw(st.integers(0, 9)) < py_bias):
        if k == "struct":
            return {"t": "dict", "f": [[nm, draw(_materialise(c, side, py_bias))] for nm, c in sh[1]]}
        return {"t": "list", "c": [draw(_materialise(sh[1], side, py_bias)) for _ in range(sh[2])]}
    r = draw(st.integers(0, 13))
    sh = _strip(sh)
    if side == "rhs" and r == 0 and not _lay_has(sh, "union"):
        return {"t": "hw", "form": "const", "lay": sh}
    if r in (1, 2) and k == "struct" and not _lay_has(sh, "union") and not _lay_has(sh, "array"):
        # ArrayProxy support is only exercised for (nested) struct Views by test_assign; others are not generated
        return {"t": "hw", "form": "proxy", "lay": sh, "n": draw(st.integers(1, 3)), "idx": draw(st.integers(0, 2))}
    return {"t": "hw", "form": "sig", "lay": sh}


def _strip(sh):
    """drop the 'py' markers below a node that is materialised as one hardware layout"""
    if sh[0] == "leaf":
        return sh
    if sh[0] == "array":
        return ["array", _strip(sh[1]), sh[2]]
    return [sh[0], [[nm, _strip(c)] for nm, c in sh[1]]]


def _node_keys(node):
    """keys a python-level node offers (None if it is not field-containing) - used to aim `fields` at real names."""
    if node["t"] == "dict":
        return [k for k, _ in node["f"]]
    if node["t"] == "list":
        return list(range(len(node["c"])))
    if node["t"] == "hw":
        lay = node["lay"]
        if lay[0] in ("struct", "union"):
            return [k for k, _ in lay[1]]
        if lay[0] == "array":
            return list(range(lay[2]))
    return None


def _node_child(node, key):
    if node["t"] == "dict":
        return dict((k, c) for k, c in node["f"]).get(key)
    if node["t"] == "list":
        return node["c"][key] if isinstance(key, int) and key < len(node["c"]) else None
    if node["t"] == "hw":
        lay = node["lay"]
        if lay[0] in ("struct", "union"):
            c = dict((k, c) for k, c in lay[1]).get(key)
        elif lay[0] == "array":
            c = lay[1] if isinstance(key, int) and key < lay[2] else None
        else:
            c = None
        return None if c is None else {"t": "hw", "form": node["form"], "lay": c}
    return None


@st.composite
def _fields(draw, lhs, rhs, depth):
    """{"m": MODE} | {"names": [...]} | {"map": [[key, fields]...]}"""
    r = draw(st.integers(0, 19))
    lk, rk = (_node_keys(lhs) if lhs else None), (_node_keys(rhs) if rhs else None)
    for a, b in ((lhs, rhs), (rhs, lhs)):
        if a and a["t"] == "hw" and a["lay"][0] == "union":
            # a union is a single value unless the other side is a mapping naming one member
            if b and b["t"] == "dict" and b["f"] and r >= 10:
                k = b["f"][0][0]
                return {"map": [[k, draw(_fields(_node_child(lhs, k), _node_child(rhs, k), depth - 1))]]}
            lk = None
    if lk is None or rk is None or depth <= 0:
        if r == 19 and depth < 3:  # non-AssignType fields reaching a non-structure (docstring silent)
            return {"names": []} if draw(st.booleans()) else {"map": []}
        return {"m": draw(st.sampled_from(MODES))}
    common = [k for k in lk if k in rk]
    if r < 10:
        # a mode; when the key sets overlap only partially prefer the modes that can succeed
        if common and set(lk) != set(rk) and draw(st.integers(0, 2)):
            ok = ["COMMON"] + (["LHS"] if set(lk) <= set(rk) else []) + (["RHS"] if set(rk) <= set(lk) else [])
            return {"m": draw(st.sampled_from(ok))}
        return {"m": draw(st.sampled_from(MODES))}
    pool = common if common and draw(st.integers(0, 5)) else [k for k in lk + rk if k not in common] + common
    if draw(st.integers(0, 15)) == 0:
        pool = pool + ["zz"]
    if not pool:
        return {"m": draw(st.sampled_from(MODES))}
    pick = [k for k in pool if draw(st.integers(0, 3))] or [pool[0]]
    pick = list(dict((repr(k), k) for k in pick).values())
    if r < 14:
        return {"names": pick}
    return {"map": [[k, draw(_fields(_node_child(lhs, k), _node_child(rhs, k), depth - 1))] for k in pick]}


@st.composite
def _wrap_single(draw, leaf, levels):
    sh = leaf
    for _ in range(levels):
        sh = ["struct", [[draw(st.sampled_from(NAMES)), sh]]] if draw(st.integers(0, 3)) else ["array", sh, 1]
    return sh


@st.composite
def strategy(draw, tier="quick"):
    scenario = draw(st.sampled_from(["general"] * 7 + ["union-dict"] * 2 + ["single-field"]))
    py_l, py_r = draw(st.sampled_from([0, 0, 3, 6])), draw(st.sampled_from([0, 0, 3, 6]))
    if scenario == "single-field":
        # a View that holds exactly one value against a plain value (or another such View)
        leaf = ["leaf", draw(st.integers(1, 6)), draw(st.booleans())]
        other = ["leaf", max(1, leaf[1] + draw(st.sampled_from([0, 0, 0, 1, -1]))), draw(st.booleans()) == leaf[2]]
        a, b = draw(_wrap_single(leaf, draw(st.integers(1, 2)))), draw(_wrap_single(other, draw(st.integers(0, 1))))
        if draw(st.booleans()):
            a, b = b, a
        if draw(st.integers(0, 2)) == 0:  # held by a struct / dict
            nm = draw(st.sampled_from(NAMES))
            a, b = ["struct", [[nm, a]], "py"], ["struct", [[nm, b]], "py"]
        sh, rsh = a, b
    else:
        depth = draw(st.sampled_from([1, 2, 2, 3]))
        sh = draw(_shape(depth, ("struct", "struct", "struct", "struct", "array", "union")))
        if scenario == "union-dict" and not _lay_has(sh, "union"):
            members = draw(st.lists(st.sampled_from(NAMES), min_size=1, max_size=3, unique=True))
            u = ["union", [[nm, draw(_shape(1))] for nm in members]]
            sh = u if draw(st.integers(0, 2)) == 0 else ["struct", [["u", u]] + (sh[1] if sh[0] == "struct" else [])[:2]]
        rate = draw(st.sampled_from([0, 2, 3, 4, 6]))
        force = draw(st.sampled_from([None, None, "drop", "add", "rename"]))
        fdepth = draw(st.sampled_from([0, 0, 1, 1, 2]))
        rsh = draw(_mutate(sh, rate, union_to_dict=scenario == "union-dict", force=force, fdepth=fdepth))
        if scenario == "union-dict":
            py_r = 6
            if draw(st.integers(0, 3)) == 0:  # the union on the right, the dict on the left
                sh, rsh = rsh, sh
                py_l, py_r = py_r, py_l
    lhs = draw(_materialise(sh, "lhs", py_l))
    rhs = draw(_materialise(rsh, "rhs", py_r))
    fields = draw(_fields(lhs, rhs, 3))
    nval = 2 if tier == "quick" else 3
    big = st.integers(0, (1 << 160) - 1)
    return {
        "lhs": lhs,
        "rhs": rhs,
        "fields": fields,
        "reset": draw(big),
        "consts": draw(big),
        "vals": [draw(big) for _ in range(nval)],
    }


# ===================================================================================================== resolved trees


class N:
    """Resolved node, shared by the object builder and the reference.

    kind: leaf | struct | array | union | dict | list | int
    origin: 'sig' (Signal / View over a Signal / field of it), 'const' (data.Const / Const / field of it), 'int', 'py'
    store: (storage id, bit offset) for hardware nodes; width/signed for leaves; children: ordered {key: N}
    """

    def __init__(self, kind, origin, width=0, signed=False, store=None, children=None, value=None, top=False):
        self.kind, self.origin, self.width, self.signed = kind, origin, width, signed
        self.store, self.children, self.value, self.top = store, children, value, top
        self.proxy = False

    def shape(self):
        if self.kind == "leaf":
            return ("s" if self.signed else "u", self.width)
        if self.kind == "array":
            ch = list(self.children.values())
            return ("array", ch[0].shape() if ch else None, len(ch))
        return (self.kind, tuple((k, c.shape()) for k, c in self.children.items()))


def _resolve_lay(lay, origin, sid, off):
    k = lay[0]
    if k == "leaf":
        return N("leaf", origin, lay[1], lay[2], (sid, off))
    ch = {}
    if k == "struct":
        o = off
        for nm, c in lay[1]:
            ch[nm] = _resolve_lay(c, origin, sid, o)
            o += _width(c)
    elif k == "union":
        for nm, c in lay[1]:
            ch[nm] = _resolve_lay(c, origin, sid, off)
    else:
        w = _width(lay[1])
        for i in range(lay[2]):
            ch[i] = _resolve_lay(lay[1], origin, sid, off + i * w)
    return N(k, origin, _width(lay), False, (sid, off), ch)


def _mark_proxy(n):
    n.proxy = True
    for c in (n.children or {}).values():
        _mark_proxy(c)


class Builder:
    """Creates the amaranth objects and, in parallel, the resolved tree."""

    def __init__(self, side, bits):
        self.side, self.bits, self.pos = side, bits, 0
        self.storages = []  # dict(sig=Signal|None, width, value=int|None(random per valuation), const=bool)
        self.extra_sets = []  # (signal, value) for proxy indices

    def _take(self, w):
        v = (self.bits >> self.pos) & ((1 << w) - 1)
        self.pos = (self.pos + w) % 150
        return v

    def _lay(self, lay):
        from amaranth import signed, unsigned
        from amaranth.lib import data

        if lay[0] == "leaf":
            return signed(lay[1]) if lay[2] else unsigned(lay[1])
        if lay[0] == "struct":
            return data.StructLayout({nm: self._lay(c) for nm, c in lay[1]})
        if lay[0] == "union":
            return data.UnionLayout({nm: self._lay(c) for nm, c in lay[1]})
        return data.ArrayLayout(self._lay(lay[1]), lay[2])

    def build(self, node, top=True):
        from amaranth import Array, Const, Signal
        from amaranth.lib import data

        t = node["t"]
        if t == "int":
            n = N("int", "int", value=node["v"])
            n.top = top
            return node["v"], n
        if t == "dict":
            objs, ch = {}, {}
            for k, c in node["f"]:
                objs[k], ch[k] = self.build(c, False)
            return objs, N("dict", "py", children=ch, top=top)
        if t == "list":
            objs, ch = [], {}
            for i, c in enumerate(node["c"]):
                o, ch[i] = self.build(c, False)
                objs.append(o)
            return objs, N("list", "py", children=ch, top=top)
        lay, form = node["lay"], node["form"]
        w = _width(lay)
        sid = len(self.storages)
        if form == "proxy":
            # Array of `n` equal-layout struct views indexed by a signal holding `idx` (in range)
            cnt, idx = node["n"], node["idx"] % node["n"]
            views = []
            for j in range(cnt):
                init = self._take(w)
                s = Signal(w, init=init if self.side == "lhs" else 0, name=f"{self.side}{sid + j}")
                self.storages.append(dict(sig=s, width=w, value=init if self.side == "lhs" else None, const=False))
                views.append(data.View(self._lay(lay), s))
            isig = Signal(range(max(cnt, 2)), name=f"{self.side}idx{sid}", init=idx)
            n = _resolve_lay(lay, "sig", sid + idx, 0)
            n.top = top
            _mark_proxy(n)
            return Array(views)[isig], n
        if form == "const":
            v = self._take(w)
            self.storages.append(dict(sig=None, width=w, value=v, const=True))
            n = _resolve_lay(lay, "const", sid, 0)
            n.top = top
            if lay[0] == "leaf":
                sv = v - (1 << w) if lay[2] and v >> (w - 1) else v
                return Const(sv, self._lay(lay)), n
            return self._lay(lay).from_bits(v), n
        init = self._take(w)
        n = _resolve_lay(lay, "sig", sid, 0)
        n.top = top
        if lay[0] == "leaf":
            sv = init - (1 << w) if lay[2] and init >> (w - 1) else init
            s = Signal(self._lay(lay), init=sv if self.side == "lhs" else 0, name=f"{self.side}{sid}")
            self.storages.append(dict(sig=s, width=w, value=init if self.side == "lhs" else None, const=False))
            return s, n
        s = Signal(w, init=init if self.side == "lhs" else 0, name=f"{self.side}{sid}")
        self.storages.append(dict(sig=s, width=w, value=init if self.side == "lhs" else None, const=False))
        return data.View(self._lay(lay), s), n


# ===================================================================================================== reference


class MustRaise(Exception):
    pass


FC = ("struct", "array", "dict", "list")
REGION = "assign:single-field-view-unwrap-skips-width-check"


def _single_chain(n):
    """View whose layout is a chain of one-field structs / one-element arrays around a single leaf."""
    if n.kind == "leaf" or n.origin != "sig":
        return False
    while n.kind != "leaf":
        if n.kind not in ("struct", "array") or len(n.children) != 1:
            return False
        (n,) = n.children.values()
    return True


class Ref:
    """Recursive matcher written from the `assign` docstring.  Collects (lhs node, rhs node) pairs, 'soft' reasons
    (docstring silent -> raising and not raising are both acceptable) and class labels."""

    def __init__(self):
        self.pairs, self.soft, self.labels, self.opaque = [], set(), set(), False
        # region key of a known-defect region, set when the verdict hinges on a single-value View (see REGION)
        self.region = None

    @staticmethod
    def sub(fields, name):
        if "m" in fields:
            return fields
        if "map" in fields:
            d = {repr(k): f for k, f in fields["map"]}
            return d.get(repr(name))
        return {"m": "ALL", "via": "names"}  # iterable of names: "for subfields, AssignType.ALL is assumed"

    def match(self, l, r, fields):
        if (l.proxy and l.kind in ("array", "union")) or (r.proxy and r.kind in ("array", "union")):
            # ArrayProxy support is only exercised for struct Views (test_assign); not mentioned in the docstring
            self.soft.add("soft:arrayproxy-of-non-struct")
            self.opaque = True
            return
        lfc = l.kind in FC
        rfc = r.kind in FC
        if lfc and rfc:
            lk, rk = list(l.children), list(r.children)
            if "m" in fields:
                m = fields["m"]
                names = {
                    "COMMON": [k for k in lk if k in rk],
                    "LHS": lk,
                    "RHS": rk,
                    "ALL": lk + [k for k in rk if k not in lk],
                }[m]
                self.labels.add(f"mode:{m}")
            elif "map" in fields:
                names = [k for k, _ in fields["map"]]
                self.labels.add("fields:mapping")
            else:
                names = list(fields["names"])
                self.labels.add("fields:names")
            if l.kind in ("array", "list") or r.kind in ("array", "list"):
                self.labels.add("fc:array/list")
            if "const" in (l.origin, r.origin):
                self.labels.add("fc:data.Const")
            if l.proxy or r.proxy:
                self.labels.add("fc:arrayproxy")
            if set(lk) != set(rk) and fields.get("via") == "names":
                self.labels.add("names-list:subfield-keysets-differ")
            if set(lk) != set(rk):
                self.labels.add("keysets-differ")
                if set(lk) & set(rk):
                    self.labels.add("partial-overlap")
            if not names:
                if lk or rk:
                    self.soft.add("soft:no-names-selected")
                return
            for k in names:
                if k not in lk or k not in rk:
                    raise MustRaise(f"field {k!r} selected but missing (lhs {lk}, rhs {rk})")
            for k in names:
                self.match(l.children[k], r.children[k], self.sub(fields, k))
            return
        l_union_view = l.kind == "union" and l.origin == "sig"
        r_union_view = r.kind == "union" and r.origin == "sig"
        if (l_union_view and r.kind == "dict") or (l.kind == "dict" and r_union_view):
            mapping, union = (l, r) if l.kind == "dict" else (r, l)
            self.labels.add("union-vs-mapping")
            if len(mapping.children) != 1:
                raise MustRaise("non-singleton mapping against a union")
            (name,) = mapping.children
            if name not in union.children:
                raise MustRaise(f"member {name!r} not in the union")
            sub = self.sub(fields, name)
            if sub is None:
                self.soft.add("soft:mapping-fields-lack-union-member")
                self.opaque = True
                return
            self.match(l.children[name], r.children[name], sub)
            return
        # ---- not both field-containing: "checks for the same bit width and generates a single assignment statement"
        if "m" not in fields:
            self.soft.add("soft:fields-on-non-structure")
        if l.kind in ("dict", "list") or r.kind in ("dict", "list"):
            raise MustRaise("a dict/list cannot be assigned to/from a single value")
        self.labels.add("single:" + l.kind + "<-" + r.kind)
        if (l.proxy or r.proxy) and (l.kind != "leaf" or r.kind not in ("leaf", "int")):
            self.soft.add("soft:arrayproxy-as-single-value")
        proxy = l.proxy or r.proxy
        l_view = l.kind != "leaf" and l.origin == "sig"
        r_view = r.kind not in ("leaf", "int") and r.origin == "sig"
        l_explicit = True  # lhs is always a Signal, a View or a field of a View
        r_explicit = r.origin == "sig"
        if r.kind == "int":
            if l.kind != "leaf":
                self.soft.add("soft:int-against-view")
            elif proxy:
                self.soft.add("soft:arrayproxy-against-unshaped")
            # otherwise: no explicit shape on the right -> no check, plain (truncating) assignment
        else:
            lw, rw = l.width, r.width
            same_shape = l.shape() == r.shape()
            if l_view or r_view or (l_explicit and r_explicit):
                if lw != rw:
                    if (l_view and _single_chain(l)) or (r_view and _single_chain(r)):
                        # A View holding a single field is unwrapped to that field before the check.  The docstring
                        # ("checked if any side is a View") and the behaviour the library's own users and tests rely
                        # on (`return arg + 1` into a one-field output layout) disagree here, so both outcomes are
                        # accepted (see DESIGN.md section 11).
                        self.soft.add("soft:single-field-view-unwrapped-width-mismatch")
                    else:
                        raise MustRaise(f"bit widths differ ({lw} vs {rw}) and a width check is documented")
                if not same_shape:
                    self.soft.add("soft:same-width-different-shape")
            else:
                # rhs is a Const / data.Const (field): whether it has "an explicitly defined shape" is not stated
                if not same_shape:
                    self.soft.add("soft:const-shape-mismatch")
                elif proxy:
                    self.soft.add("soft:arrayproxy-against-unshaped")
        self.pairs.append((l, r))


# ===================================================================================================== check


def _sx(v, w, signed, to_w):
    """bits of a w-bit value extended to to_w bits"""
    if signed and w and (v >> (w - 1)) & 1:
        v -= 1 << w
    return v & ((1 << to_w) - 1)


def _has_kind(node, pred):
    if pred(node):
        return True
    if node["t"] == "dict":
        return any(_has_kind(c, pred) for _, c in node["f"])
    if node["t"] == "list":
        return any(_has_kind(c, pred) for c in node["c"])
    return False


def _lay_has(lay, kind):
    if lay[0] == kind:
        return True
    if lay[0] in ("struct", "union"):
        return any(_lay_has(c, kind) for _, c in lay[1])
    if lay[0] == "array":
        return _lay_has(lay[1], kind)
    return False


def _to_fields(f):
    from transactron.utils import AssignType

    if "m" in f:
        return AssignType[f["m"]]
    if "names" in f:
        return list(f["names"])
    return {k: _to_fields(s) for k, s in f["map"]}


def run_case(case) -> Result:
    from amaranth import Module
    from amaranth.sim import Simulator
    from transactron.utils import assign

    res = Result()
    lb, rb = Builder("lhs", case["reset"]), Builder("rhs", case["consts"])
    lobj, ltree = lb.build(case["lhs"])
    robj, rtree = rb.build(case["rhs"])

    ref = Ref()
    try:
        ref.match(ltree, rtree, case["fields"])
        must_raise = None
    except MustRaise as e:
        must_raise = str(e)
    labels = set(ref.labels) | ref.soft
    for nm, node in (("lhs", case["lhs"]), ("rhs", case["rhs"])):
        labels.add(f"{nm}:{node['t']}" + (f"-{node['form']}" if node["t"] == "hw" else ""))
    if _has_kind(case["rhs"], lambda n: n["t"] == "hw" and n["form"] == "const"):
        labels.add("rhs-has-const")
    if _has_kind(case["lhs"], lambda n: n["t"] == "hw" and n["form"] == "proxy") or _has_kind(
        case["rhs"], lambda n: n["t"] == "hw" and n["form"] == "proxy"
    ):
        labels.add("has-arrayproxy")
    if _has_kind(case["lhs"], lambda n: n["t"] == "hw" and _lay_has(n["lay"], "union")):
        labels.add("lhs-has-union")
    vkey = ref.region

    try:
        stmts = list(assign(lobj, robj, fields=_to_fields(case["fields"])))
        raised = None
    except Exception as e:  # noqa
        stmts, raised = None, e

    def done(nontrivial=False):
        res.labels = sorted(labels)
        res.nontrivial = nontrivial
        return res

    interesting = "partial-overlap" in labels
    if must_raise is not None:
        labels.add("ref:must-raise")
        if raised is None:
            done()
            return res.fail(f"reference: must raise ({must_raise}) but assign returned {len(stmts)} statements", vkey=vkey)
        labels.add("raised:" + type(raised).__name__)
        return done(interesting)
    if raised is not None:
        if ref.soft:
            labels.add("either:raised")
            return done()
        done()
        return res.fail(
            f"reference: assignment is valid ({len(ref.pairs)} pairs) but assign raised "
            f"{type(raised).__name__}: {str(raised)[:200]}",
            vkey=vkey,
        )
    labels.add("either:accepted" if ref.soft else "ref:must-succeed")
    if ref.opaque:
        return done()

    # ---- simulate
    m = Module()
    m.d.comb += stmts
    sim = Simulator(m)
    lstore, rstore = lb.storages, rb.storages
    problems = []

    async def tb(ctx):
        for vi, big in enumerate(case["vals"]):
            rvals, pos = [], 0
            for s in rstore:
                if s["const"]:
                    rvals.append(s["value"])
                else:
                    v = (big >> pos) & ((1 << s["width"]) - 1)
                    pos = (pos + s["width"]) % 150
                    rvals.append(v)
                    ctx.set(s["sig"], _as_shape(v, s["sig"]))
            exp = [s["value"] for s in lstore]
            care = [(1 << s["width"]) - 1 for s in lstore]
            for l, r in ref.pairs:
                if r.kind == "int":
                    bits = r.value & ((1 << l.width) - 1)
                else:
                    rsid, roff = r.store
                    raw = (rvals[rsid] >> roff) & ((1 << r.width) - 1)
                    bits = _sx(raw, r.width, r.kind == "leaf" and r.signed, l.width)
                lsid, loff = l.store
                mask = ((1 << l.width) - 1) << loff
                exp[lsid] = (exp[lsid] & ~mask) | (bits << loff)
                if r.kind not in ("leaf", "int") and r.width < l.width:
                    # a narrower aggregate accepted under a 'soft' verdict: how it is extended is not specified
                    care[lsid] &= ~((((1 << l.width) - 1) >> r.width << r.width) << loff)
            for sid, s in enumerate(lstore):
                got = ctx.get(s["sig"]) & ((1 << s["width"]) - 1)
                if (got ^ exp[sid]) & care[sid]:
                    problems.append(
                        f"valuation {vi}: lhs storage {sid} ({s['width']} bits, reset {s['value']:#x}) = {got:#x}, "
                        f"expected {exp[sid]:#x}; pairs {[(l.store, l.width, r.store, r.width) for l, r in ref.pairs]}; "
                        f"statements {stmts!r}"[:700]
                    )
                    return
            res.stats["valuations"] = res.stats.get("valuations", 0) + 1

    sim.add_testbench(tb)
    sim.run()
    res.stats["pairs"] = len(ref.pairs)
    if problems:
        done()
        return res.fail(problems[0], vkey=vkey)
    if len(ref.pairs) >= 2:
        labels.add("pairs>=2")
    return done(interesting and not ref.soft and len(ref.pairs) >= 2)


def _as_shape(v, sig):
    sh = sig.shape()
    if sh.signed and sh.width and (v >> (sh.width - 1)) & 1:
        return v - (1 << sh.width)
    return v
