"""C09 - round-robin scheduler: one grant per conflict component, no starvation."""

from hypothesis import strategies as st

from tv.core import Result, short_exc
from tv.designs import Oracle, analyze, gen_spec, simulate, try_build
from tv.props._core_a import shape_labels

ID = "C09"
ENGINE = "A"
RULE = (
    "case = generated design restricted to shapes whose conflict components are unambiguous (transactions call "
    "exclusive / nonexclusive methods directly, unprioritised and prioritised add_conflict between bodies with disjoint "
    "callers; no nesting, no run-dependent readiness, no control structures - as the quantifier says) under "
    "trivial_roundrobin_cc_scheduler, driven by a history from reset: 8-30 arbitrary valuations with a clock tick after "
    "each, then for each of 2-4 target transactions a hold phase in which the target stays fully enabled while the "
    "other inputs stay arbitrary; oracle per cycle and component: <= 1 transaction runs, exactly one runs when some "
    "transaction of the component is fully enabled, a running transaction is fully enabled; in a hold phase the "
    "target is granted before it has waited |component| cycles; non-trivial = a component of size >= 2 with >= 2 "
    "simultaneously enabled transactions during a hold phase"
)
ASSUMPTIONS = [
    "amaranth.sim.Simulator is the trusted execution model",
    "components are computed by our own union-find over 'share an exclusive method' and add_conflict, which coincides "
    "with the library's conflict graph for the restricted shapes generated here",
    "fairness is checked as bounded response on generated histories, not as liveness",
]
TECHNIQUE = "grammar-based design generation + generated input histories (hold phases) against per-cycle invariants"


def budget(tier):
    return dict(examples=20, seconds=45) if tier == "quick" else dict(examples=250, seconds=420)


@st.composite
def strategy(draw, tier="quick"):
    spec = draw(
        gen_spec(
            sched="rr", allow_rels=True, rel_kinds=("conf",), allow_same_trans_conf=False, allow_if=False,
            allow_switch=False, allow_fsm=False, allow_chain=False, allow_validate=False, allow_data=False,
            allow_alias=False, allow_mods=False, min_trans=2, max_trans=5, max_methods=3, max_space=1, nvals=1,
            nonex_rate=1, min_rels=0, allow_tops=False, inject_shapes=False,
        )
    )
    an = analyze(spec)
    space = an.space()
    n0 = draw(st.integers(8, 30))
    spec["vals"] = draw(st.lists(st.integers(0, space - 1), min_size=n0, max_size=n0))
    spec["nvals"] = n0
    holds = []
    for _ in range(draw(st.integers(2, 4))):
        t = draw(st.integers(0, len(an.transactions) - 1))
        n = draw(st.integers(4, 12))
        # bias: the other transactions are mostly requesting too (contention)
        vals = draw(st.lists(st.integers(0, space - 1) | st.just(space - 1), min_size=n, max_size=n))
        holds.append({"target": t, "vals": vals})
    return {"spec": spec, "holds": holds}


def run_case(case) -> Result:
    spec = case["spec"]
    an = analyze(spec)
    res = Result(labels=shape_labels(an))
    built, exc = try_build(spec, an)
    if built is None:
        res.labels.append("elaboration_failed")
        return res
    orc = Oracle(an)
    ts = an.transactions
    # components by union-find over may_conflict
    comp = {t: t for t in ts}

    def find(x):
        while comp[x] != x:
            x = comp[x]
        return x

    for i, a in enumerate(ts):
        for b in ts[i + 1 :]:
            if an.may_conflict(a, b):
                comp[find(a)] = find(b)
    comps = {}
    for t in ts:
        comps.setdefault(find(t), []).append(t)
    res.labels.append(f"max_component_{max(len(c) for c in comps.values())}")
    space = an.space()
    inputs = an.inputs()

    def force_enabled(v, target):
        val = an.decode(v % space)
        val[f"rdy:{target}"] = 1 if an.bodies[target].get("rdy") else 0
        for m in an.tree_methods(target):
            if an.bodies[m].get("rdy"):
                val[f"rdy:{m}"] = 1
        out, mul = 0, 1
        for name, k in inputs:
            out += val.get(name, 0) * mul
            mul *= k
        return out

    plan = [(v % space, None) for v in spec["vals"]]
    for h in case["holds"]:
        tgt = ts[h["target"] % len(ts)]
        plan += [(force_enabled(v, tgt), tgt) for v in h["vals"]]
    state = {"i": 0, "held": 0, "prev_tgt": None, "contended": 0, "grants": 0}

    def visit(ob):
        _, tgt = plan[state["i"]]
        state["i"] += 1
        en = {t: orc.enabled(t, ob)[0] for t in ts}
        for root, members in comps.items():
            nr = sum(ob.run[t] for t in members)
            if nr > 1:
                return f"{nr} transactions of component {members} run in one cycle; val={ob.val}"
            if any(en[t] for t in members) and nr != 1:
                return f"component {members}: enabled {[t for t in members if en[t]]} but none runs; val={ob.val}"
        for t in ts:
            if ob.run[t] and not en[t]:
                return f"transaction {t} runs although not fully enabled; val={ob.val}"
        if tgt is not None:
            if tgt != state["prev_tgt"]:
                state["held"] = 0
            members = comps[find(tgt)]
            if not en[tgt]:
                return None  # cannot happen by construction; be conservative
            if len(members) >= 2 and sum(en[t] for t in members) >= 2:
                state["contended"] += 1
            if ob.run[tgt]:
                state["held"] = 0
                state["grants"] += 1
            else:
                state["held"] += 1
                if state["held"] >= len(members):
                    return f"transaction {tgt} stayed enabled for {state['held']} cycles without a grant (component size {len(members)})"
        state["prev_tgt"] = tgt
        return None

    msg = simulate(built, [v for v, _ in plan], visit, tick=True)
    res.stats["cycles"] = state["i"]
    res.stats["hold_grants"] = state["grants"]
    res.stats["contended_hold_cycles"] = state["contended"]
    if msg is not None:
        return res.fail(msg)
    res.nontrivial = state["contended"] > 0
    return res
