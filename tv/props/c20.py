"""C20 - Semaphore counts acquisitions."""

from hypothesis import strategies as st

from tv.core import Result
from tv.cyc import Harness, draw_second, second_fold, second_request, step
from tv.queues import capped_history, check_accept

ID = "C20"
ENGINE = "B"
TECHNIQUE = "cycle-accurate driver + integer counter as reference model; the count register is sampled every cycle"
RULE = (
    "case = (max_count 1..9 quick / 1..17 thorough, history of per-cycle request vectors acquire/release/clear, "
    "optionally preceded by acquire-only cycles; clear is kept rare); model = integer stepped with the observed "
    "accepted set (clear wins); every cycle the accepted set is compared with the model's readiness and the sampled "
    "`count` register with the model; non-trivial = the count reached max_count AND acquire and release were accepted "
    "in one cycle AND (acquire+release both requested at max_count, or clear accepted together with an acquire)"
)
RULE += (
    "  In one case of three a SECOND, independent caller (its own transaction) of one exclusive method (acquire / release) requests "
    "in some of the cycles in which the first caller does, with the same arguments: at most one of the two may be served "
    "and the outcome must be that of a single request."
)

ASSUMPTIONS = [
    "amaranth.sim.Simulator is the trusted execution model",
    "readiness is judged behaviourally: a requested call that is not accepted counts as 'not ready'",
    "Semaphore.count is the public register holding the count; a value sampled on a clock edge is the value held "
    "during the cycle that ends at this edge (pre-state of that cycle)",
]

PROFILES = [
    {"acquire": 7, "release": 1},
    {"acquire": 8, "release": 8},
    {"acquire": 1, "release": 6},
    {"acquire": 6, "release": 5, "clear": 1},
    {"acquire": 8, "release": 3, "clear": 1},
]


def budget(tier):
    return dict(examples=300, seconds=40) if tier == "quick" else dict(examples=1500, seconds=300)


@st.composite
def strategy(draw, tier="quick"):
    max_count = draw(st.integers(1, 9 if tier == "quick" else 17))
    methods = {"acquire": [], "release": [], "clear": []}
    hi = 60 if tier == "quick" else 200
    # optional acquire-only prefix (part of the history) so that large maxima are reached in short histories
    pre = [{"acquire": [], "release": None, "clear": None} for _ in range(draw(st.integers(0, max_count)))]
    hist = pre + draw(capped_history(methods, 8, hi, caps={"clear": 2}, profiles=PROFILES))
    second, mask = draw_second(draw, ["acquire", "release"])
    return {"max_count": max_count, "history": hist, "second": second, "second_mask": mask}


def run_case(case) -> Result:
    from transactron.lib import Semaphore

    mx = case["max_count"]
    res = Result(labels=[f"max{mx}"])
    second = case.get("second")
    h = Harness(lambda: Semaphore(mx), second_callers=(second,) if second else ())
    if second:
        res.labels.append("two_callers_of_" + second)
    names = ["acquire", "release", "clear"]
    flags = dict(at_max=False, ar_together=False, ar_at_max=False, clear_acquire=False, clear_release=False)

    async def tb(ctx):
        ios = h.ios(names + ([second + "_b"] if second else []))
        count = 0
        for cyc, rec in enumerate(case["history"]):
            reqs = {n: {} for n in names if rec.get(n) is not None}
            second_request(case, reqs, cyc)
            results, (hw_count,) = await step(ctx, ios, reqs, samples=[h.dut.count])
            res.stats["cycles"] = res.stats.get("cycles", 0) + 1
            msg = second_fold(case, reqs, results)
            if msg:
                return res.fail(f"cycle {cyc}: {msg}")
            info = f"(count {count}/{mx})"
            if hw_count != count:
                return res.fail(f"cycle {cyc}: count register is {hw_count}, acquisitions - releases = {count}")
            for n, ready in (("acquire", count < mx), ("release", count > 0), ("clear", True)):
                if check_accept(res, cyc, n, n in reqs, ready, results[n] is not None, info):
                    return
            a = results["acquire"] is not None
            r = results["release"] is not None
            c = results["clear"] is not None
            if count == mx:
                flags["at_max"] = True
                if "acquire" in reqs and "release" in reqs:
                    flags["ar_at_max"] = True
            if a and r:
                flags["ar_together"] = True
            if c and a:
                flags["clear_acquire"] = True
            if c and r:
                flags["clear_release"] = True
            count = 0 if c else count + a - r
        # the register after the last cycle
        _, (hw_count,) = await step(ctx, ios, {}, samples=[h.dut.count])
        if hw_count != count:
            return res.fail(f"after the last cycle: count register is {hw_count}, model {count}")

    h.run(tb)
    for k, v in flags.items():
        if v:
            res.labels.append(k)
    res.nontrivial = flags["at_max"] and flags["ar_together"] and (flags["ar_at_max"] or flags["clear_acquire"])
    if res.nontrivial:
        res.labels.insert(1, "nt")
    return res
