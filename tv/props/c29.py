"""C29 - StreamSource / StreamSink / StreamModuleWrapper obey the ready/valid stream protocol."""

from hypothesis import strategies as st

from tv.core import Result
from tv.cyc import Harness, fold_second, step

ID = "C29"
ENGINE = "B"
TECHNIQUE = "cycle driver playing the stream peer on the plain ports + protocol monitor / queue model"
RULE = (
    "case = (kind source|sink|wrapper, payload shape: unsigned 1..8 bits or a 2-field struct, history in 1-4 segments "
    "with their own request/handshake probabilities). source: per cycle (write request + value, consumer ready bit), "
    "followed by a drain with ready=1; sink: the driver is a protocol-conforming producer (an offered payload is held "
    "until transferred) and requests read/peek; wrapper: StreamModuleWrapper around an in-house registered stream "
    "buffer (depth 1..3, payload map x -> (x*mul+add) mod 2^wo with wo != wi allowed), write/read requests, followed "
    "by a drain.  In one case of three a SECOND independent caller (its own transaction) of the exclusive method exists "
    "(write of the source, read of the sink, either of the wrapper): at most one of the two is served per cycle and the "
    "outcome is that of a single request. non-trivial = source: a stall (valid and not ready) of >= 2 cycles during which a write was refused, "
    "and a write accepted in a transfer cycle; sink: a peek accepted in a cycle without read followed later by a "
    "read, and a read refused while not valid; wrapper: a write refused by back-pressure and >= depth+2 items moved"
)
ASSUMPTIONS = [
    "amaranth.sim.Simulator is the trusted execution model",
    "readiness is judged behaviourally: a requested call that is not accepted counts as 'not ready'",
    "plain ports are driven before and sampled at the clock edge together with the method results",
    "StreamSource.write is ready iff the output register is empty or transferred in this cycle (class docstring and "
    "the comment on the method; test_simultaneous_write_and_ready asserts the refill case)",
    "the wrapped module of the wrapper cases is our own registered buffer whose behaviour (i.ready = not full, "
    "o.valid = not empty, both registered) is known exactly",
]


def budget(tier):
    return dict(examples=100, seconds=30) if tier == "quick" else dict(examples=1500, seconds=300)


# ------------------------------------------------------------------------------------------------ generation


def _value(draw, shape):
    if isinstance(shape, int):
        return draw(st.integers(0, (1 << shape) - 1))
    return [draw(st.integers(0, (1 << w) - 1)) for w in shape]


@st.composite
def strategy(draw, tier="quick"):
    kind = draw(st.sampled_from(["source", "sink", "wrapper"]))
    hi = 50 if tier == "quick" else 180
    total = draw(st.integers(5, hi))
    nseg = draw(st.integers(1, 4))
    per = max(1, total // nseg)
    case = {"kind": kind}
    if kind == "wrapper":
        wi = draw(st.integers(1, 8))
        wo = draw(st.integers(1, 8))
        case.update(
            wi=wi, wo=wo, depth=draw(st.integers(1, 3)), mul=draw(st.integers(1, 5)), add=draw(st.integers(0, 7))
        )
        shape = wi
    else:
        shape = draw(st.one_of(st.integers(1, 8), st.lists(st.integers(1, 6), min_size=2, max_size=2)))
        case["shape"] = shape
    # in one case of three a second, independent caller of an exclusive method exists (its own transaction)
    second = draw(st.sampled_from([None, None, {"source": "write", "sink": "read"}.get(kind) or draw(st.sampled_from(["write", "read"]))]))
    case["second"] = second
    hist = []
    for s in range(nseg):
        n = per if s < nseg - 1 else max(1, total - per * (nseg - 1))
        wa, wb, wc, wd = (draw(st.integers(0, 8)) for _ in range(4))
        for _ in range(n):
            a = draw(st.integers(0, 7)) < wa
            b = draw(st.integers(0, 7)) < wb
            c = draw(st.integers(0, 7)) < wc
            d = second is not None and draw(st.integers(0, 7)) < wd
            if kind == "source":
                hist.append({"write": _value(draw, shape) if a else None, "ready": int(b)})
            elif kind == "sink":
                hist.append({"offer": _value(draw, shape) if a else None, "read": b, "peek": c})
            else:
                hist.append({"write": _value(draw, shape) if a else None, "read": b})
            if d:
                hist[-1]["second"] = _value(draw, shape) if second == "write" else True
    case["history"] = hist
    return case


# ------------------------------------------------------------------------------------------------ helpers


def _shape_obj(shape):
    from amaranth.lib.data import StructLayout

    if isinstance(shape, int):
        return shape
    return StructLayout({"x": shape[0], "y": shape[1]})


def _val(shape, v):
    return v if isinstance(shape, int) else {"x": v[0], "y": v[1]}


def _make_buffer(wi, wo, depth, mul, add):
    """In-house registered stream buffer used as the wrapped module (trusted: 20 lines of plain Amaranth)."""
    from amaranth import Array, Module, Signal
    from amaranth.lib import stream, wiring
    from amaranth.lib.wiring import In, Out

    class Buf(wiring.Component):
        def __init__(self):
            super().__init__({"i": In(stream.Signature(wi)), "o": Out(stream.Signature(wo))})

        def elaborate(self, platform):
            m = Module()
            store = Array(Signal(wo, name=f"st{k}") for k in range(depth))
            count = Signal(range(depth + 1))
            m.d.comb += [self.i.ready.eq(count < depth), self.o.valid.eq(count > 0), self.o.payload.eq(store[0])]
            push = Signal()
            pop = Signal()
            m.d.comb += [push.eq(self.i.valid & self.i.ready), pop.eq(self.o.valid & self.o.ready)]
            with m.If(pop):
                for k in range(depth - 1):
                    m.d.sync += store[k].eq(store[k + 1])
            idx = Signal(range(depth + 1))
            m.d.comb += idx.eq(count - pop)
            with m.If(push):
                m.d.sync += store[idx].eq(self.i.payload * mul + add)
            m.d.sync += count.eq(count + push - pop)
            return m

    return Buf()


# ------------------------------------------------------------------------------------------------ the three checks


def _run_source(case, res):
    from transactron.lib.stream import StreamSource

    shape = case["shape"]
    sec = case.get("second")
    h = Harness(lambda: StreamSource(_shape_obj(shape)), second_callers=(sec,) if sec else ())
    if sec:
        res.labels.append("two_callers_of_" + sec)
    hist = list(case["history"]) + [{"write": None, "ready": 1}] * 4
    flags = dict(stall2_refused=False, refill=False, stall=False)

    async def tb(ctx):
        ios = h.ios(["write"] + (["write_b"] if sec else []))
        o = h.dut.o
        written, transferred = [], []
        prev = None  # (valid, payload, ready) of the previous cycle
        stall_len, refused_in_stall = 0, False
        for t, rec in enumerate(hist):
            ctx.set(o.ready, rec["ready"])
            reqs = {"write": {"data": _val(shape, rec["write"])}} if rec["write"] is not None else {}
            if sec and rec.get("second") is not None:
                reqs["write_b"] = {"data": _val(shape, rec["second"])}
            results, (valid, payload) = await step(ctx, ios, reqs, [o.valid, o.payload])
            res.stats["cycles"] = res.stats.get("cycles", 0) + 1
            if sec:
                msg = fold_second("write", reqs, results)
                if msg:
                    return res.fail(f"cycle {t}: {msg}")
            acc = results["write"] is not None
            rdy = rec["ready"]
            if acc and "write" not in reqs:
                return res.fail(f"cycle {t}: write ran without being requested")
            # protocol: once valid, valid and the payload are held until a cycle with ready
            if prev is not None and prev[0] and not prev[2]:
                if not valid:
                    return res.fail(f"cycle {t}: valid dropped although the payload was not accepted in cycle {t - 1}")
                if payload != prev[1]:
                    return res.fail(f"cycle {t}: payload changed {prev[1]} -> {payload} while stalled")
            # transfers are the written items, in order, exactly once
            if valid and rdy:
                transferred.append(payload)
                k = len(transferred) - 1
                if k >= len(written):
                    return res.fail(f"cycle {t}: transfer #{k} of {payload} but only {len(written)} items were written")
                if written[k] != payload:
                    return res.fail(f"cycle {t}: transfer #{k} is {payload}, expected written item {written[k]}")
            # readiness of write
            if "write" in reqs:
                exp = (not valid) or bool(rdy)
                if acc != exp:
                    return res.fail(f"cycle {t}: write requested with valid={valid} ready={rdy}: accepted={acc}")
            if acc:
                written.append(reqs["write"]["data"])
                if valid and rdy:
                    flags["refill"] = True
            if valid and not rdy:
                stall_len += 1
                flags["stall"] = True
                refused_in_stall = refused_in_stall or ("write" in reqs and not acc)
                if stall_len >= 2 and refused_in_stall:
                    flags["stall2_refused"] = True
            else:
                stall_len, refused_in_stall = 0, False
            prev = (valid, payload, rdy)
        if transferred != written:
            return res.fail(
                f"after the drain {len(transferred)} items were transferred but {len(written)} written: "
                f"{transferred[-3:]} vs {written[-3:]}"
            )
        res.stats["items"] = res.stats.get("items", 0) + len(written)

    h.run(tb)
    res.labels += [k for k, v in flags.items() if v]
    res.nontrivial = flags["stall2_refused"] and flags["refill"]


def _run_sink(case, res):
    from transactron.lib.stream import StreamSink

    shape = case["shape"]
    sec = case.get("second")
    h = Harness(lambda: StreamSink(_shape_obj(shape)), second_callers=(sec,) if sec else ())
    if sec:
        res.labels.append("two_callers_of_" + sec)
    flags = dict(peek_only_then_read=False, read_refused_invalid=False, stall2=False, peek_and_read=False)

    async def tb(ctx):
        ios = h.ios(["read", "peek"] + (["read_b"] if sec else []))
        i = h.dut.i
        holding = None  # payload offered and not yet transferred
        peeked_pending = False
        held = 0
        for t, rec in enumerate(case["history"]):
            if holding is None and rec["offer"] is not None:
                holding = _val(shape, rec["offer"])
                held = 0
            valid = holding is not None
            ctx.set(i.valid, int(valid))
            if valid:
                ctx.set(i.payload, holding)
            reqs = {}
            if rec["read"]:
                reqs["read"] = {}
            if rec["peek"]:
                reqs["peek"] = {}
            if sec and rec.get("second"):
                reqs["read_b"] = {}
            results, (ready,) = await step(ctx, ios, reqs, [i.ready])
            res.stats["cycles"] = res.stats.get("cycles", 0) + 1
            if sec:
                msg = fold_second("read", reqs, results)
                if msg:
                    return res.fail(f"cycle {t}: {msg}")
            for n in ("read", "peek"):
                acc = results[n] is not None
                if acc and n not in reqs:
                    return res.fail(f"cycle {t}: {n} ran without being requested")
                if n in reqs and acc != valid:
                    return res.fail(f"cycle {t}: {n} requested with valid={int(valid)} but accepted={acc}")
                if acc and results[n] != {"data": holding}:
                    return res.fail(f"cycle {t}: {n} returned {results[n]}, the offered payload is {holding}")
            r_acc = results["read"] is not None
            p_acc = results["peek"] is not None
            transfer = valid and bool(ready)
            if transfer != r_acc:
                return res.fail(
                    f"cycle {t}: valid={int(valid)} ready={ready} (transfer={transfer}) but read accepted={r_acc}"
                    + (" (peek ran)" if p_acc else "")
                )
            if "read" in reqs and not valid:
                flags["read_refused_invalid"] = True
            if p_acc and r_acc:
                flags["peek_and_read"] = True
            if p_acc and not r_acc:
                peeked_pending = True
            if valid and not transfer:
                held += 1
                if held >= 2:
                    flags["stall2"] = True
            if r_acc:
                if peeked_pending:
                    flags["peek_only_then_read"] = True
                res.stats["items"] = res.stats.get("items", 0) + 1
                holding = None
                peeked_pending = False

    h.run(tb)
    res.labels += [k for k, v in flags.items() if v]
    res.nontrivial = flags["peek_only_then_read"] and flags["read_refused_invalid"]


def _run_wrapper(case, res):
    from transactron.lib.stream import StreamModuleWrapper

    wi, wo, depth, mul, add = case["wi"], case["wo"], case["depth"], case["mul"], case["add"]
    sec = case.get("second")
    h = Harness(lambda: StreamModuleWrapper(_make_buffer(wi, wo, depth, mul, add)), second_callers=(sec,) if sec else ())
    if sec:
        res.labels.append("two_callers_of_" + sec)
    hist = list(case["history"]) + [{"write": None, "read": True}] * (depth + 4)
    flags = dict(backpressure=False, full=False)
    moved = [0]

    async def tb(ctx):
        ios = h.ios(["write", "read"] + ([sec + "_b"] if sec else []))
        mod = h.dut.module
        src = None  # content of the StreamSource register (already mapped by the buffer's function on entry)
        buf = []
        prev = None
        n_written = n_read = 0
        for t, rec in enumerate(hist):
            reqs = {}
            if rec["write"] is not None:
                reqs["write"] = {"data": rec["write"]}
            if rec["read"]:
                reqs["read"] = {}
            if sec and rec.get("second") is not None:
                reqs[sec + "_b"] = {"data": rec["second"]} if sec == "write" else {}
            results, (iv, ip, ir) = await step(ctx, ios, reqs, [mod.i.valid, mod.i.payload, mod.i.ready])
            res.stats["cycles"] = res.stats.get("cycles", 0) + 1
            if sec:
                msg = fold_second(sec, reqs, results)
                if msg:
                    return res.fail(f"cycle {t}: {msg}")
            w_acc = results["write"] is not None
            r_acc = results["read"] is not None
            for n, acc in (("write", w_acc), ("read", r_acc)):
                if acc and n not in reqs:
                    return res.fail(f"cycle {t}: {n} ran without being requested")
            # stream protocol on the wrapped module's input
            if prev is not None and prev[0] and not prev[2]:
                if not iv or ip != prev[1]:
                    return res.fail(
                        f"cycle {t}: module.i valid/payload changed ({prev[0]},{prev[1]}) -> ({iv},{ip}) while stalled"
                    )
            prev = (iv, ip, ir)
            i_ready = len(buf) < depth
            exp_w = src is None or i_ready
            exp_r = len(buf) > 0
            if "write" in reqs and w_acc != exp_w:
                return res.fail(
                    f"cycle {t}: write requested, source register {'full' if src is not None else 'empty'}, "
                    f"buffer {len(buf)}/{depth}: accepted={w_acc}"
                )
            if "read" in reqs and r_acc != exp_r:
                return res.fail(f"cycle {t}: read requested, buffer {len(buf)}/{depth}: accepted={r_acc}")
            if r_acc:
                if results["read"] != {"data": buf[0]}:
                    return res.fail(f"cycle {t}: read returned {results['read']}, expected {buf[0]}")
                n_read += 1
            if "write" in reqs and not w_acc:
                flags["backpressure"] = True
            if len(buf) == depth and src is not None:
                flags["full"] = True
            # next state
            push = src is not None and i_ready
            if r_acc:
                buf.pop(0)
            if push:
                buf.append(src)
                src = None
            if w_acc:
                src = (reqs["write"]["data"] * mul + add) % (1 << wo)
                n_written += 1
        if n_read != n_written:
            return res.fail(f"after the drain {n_read} items were read but {n_written} written")
        moved[0] = n_read
        res.stats["items"] = res.stats.get("items", 0) + n_read

    h.run(tb)
    res.labels += [k for k, v in flags.items() if v]
    if wi != wo:
        res.labels.append("wi!=wo")
    res.nontrivial = flags["backpressure"] and moved[0] >= depth + 2


def run_case(case) -> Result:
    kind = case["kind"]
    res = Result(labels=[kind])
    if kind != "wrapper":
        res.labels.append("int" if isinstance(case["shape"], int) else "struct")
    {"source": _run_source, "sink": _run_sink, "wrapper": _run_wrapper}[kind](case, res)
    return res
