"""C21 - MemoryBank returns what an ideal memory holds."""

from hypothesis import strategies as st

from tv.core import Result
from tv.cyc import Harness, history, step
from tv.memx import ELEM_SHAPES, from_data, gran_arg, make_shape, to_data, ILVT_KINDS, SHAPES, apply_mask, granules, mem_class, narrow, pick_key

ID = "C21"
ENGINE = "B"
TECHNIQUE = "cycle-accurate method driver against an ideal array + per-port pending-response list"
RULE = (
    "case = (transparent, read_on_resp, 1-2 read ports, 1-2 write ports, depth 2..9 (sometimes 12, 16, 17), width 1..8, granularity "
    "None|divisor of width, memory_type Memory|MultiReadMemory (1 write port)|MultiportXORMemory (no granularity)|"
    "MultiportXORILVTMemory|MultiportOneHotILVTMemory, history of per-cycle request vectors read_req/read_resp/write "
    "with selectors that aim writes at rows with pending responses and reads at rows written in the same/previous "
    "cycle; rows of simultaneous writes are pairwise distinct); model = ideal array + per read port a list of <= 2 "
    "pending responses stepped with the observed accepted set; non-trivial = a write changed the row of a response "
    "while it was parked in the overflow buffer (two responses pending on that port) and that response was delivered "
    "in a later cycle AND, for banks with >= 2 granules, a partial write hit the row of a pending response"
)
ASSUMPTIONS = [
    "amaranth.sim.Simulator is the trusted execution model",
    "readiness is judged behaviourally: a requested call that is not accepted counts as 'not ready'",
    "no two write calls of one cycle address the same row",
    "memory types are only combined with configurations their constructors accept (MultiReadMemory: one write port, "
    "MultiportXORMemory: no granularity)",
    "failures are attributed to a known defect region from the configuration and events of the history that touch "
    "the very response that was wrong (taints on the model's pending entry), never from DUT outputs; where several "
    "regions apply, one that known_findings.json currently lists as known is preferred",
]


def budget(tier):
    return dict(examples=60, seconds=40) if tier == "quick" else dict(examples=600, seconds=300)


@st.composite
def strategy(draw, tier="quick"):
    transparent = draw(st.booleans())
    ror = draw(st.booleans())
    nr = draw(st.integers(1, 2))
    nw = draw(st.sampled_from([1, 1, 2, 2, 3]))
    depth = draw(st.one_of(st.integers(max(2, nw), 9), st.integers(max(2, nw), 9), st.sampled_from([12, 16, 17])))
    width, gran = draw(st.sampled_from(SHAPES))
    elem = None
    if draw(st.integers(0, 3)) == 0:
        width, gran, elem = draw(st.sampled_from(ELEM_SHAPES))
    kinds = ["Memory", "Memory", "XORILVT", "OneHotILVT"]
    if nw >= 2:
        kinds += ["XORILVT", "OneHotILVT"]  # several write ports are what the ILVT variants are for
    if nw == 1:
        kinds += ["MultiRead", "MultiRead"]
    if gran is None:
        kinds += ["XOR", "XOR"]
    mtype = draw(st.sampled_from(kinds))
    if mtype in ("XORILVT", "OneHotILVT") and gran is not None and draw(st.integers(0, 2)) != 0:
        # the ILVT memories with a write granularity are the region of known findings (partial writes there are
        # attributed to them), so most ILVT cases use whole-word writes, where every mismatch is a new violation
        width, gran = draw(st.sampled_from([sh for sh in SHAPES if sh[1] is None]))
        elem = None
    g = granules(width, gran)
    methods = {}
    for i in range(nr):
        methods[f"read_req{i}"] = [4, 64]
        methods[f"read_resp{i}"] = []
    for j in range(nw):
        methods[f"write{j}"] = [4, 64, 1 << width, 1 << g]
    hi = 80 if tier == "quick" else 200
    hist = draw(history(methods, 12, hi))
    return {
        "transparent": transparent,
        "ror": ror,
        "nr": nr,
        "nw": nw,
        "depth": depth,
        "width": width,
        "gran": gran,
        "elem": elem,
        "mtype": mtype,
        "history": hist,
    }


KEY_F4 = "MemoryBank:granular+read_on_resp"
KEY_F3 = "ILVT:width<addrbits+transparent"
KEY_GT = "ILVT:granular+transparent"
KEY_GM = "ILVT:granular+multiwrite"
KEY_AS = "Multiport:array-shape+granularity"  # transactron's multiport memories flatten the shape: granularity counts bits
KEY_ORDER = [KEY_GT, KEY_GM, KEY_F3, KEY_F4]


def run_case(case) -> Result:
    from transactron.lib import MemoryBank

    transparent, ror, nr, nw = case["transparent"], case["ror"], case["nr"], case["nw"]
    depth, width, gran, mtype = case["depth"], case["width"], case["gran"], case["mtype"]
    elem = case.get("elem")
    g = granules(width, gran)
    full = (1 << g) - 1
    ilvt = mtype in ILVT_KINDS
    port_transparent = transparent or ror  # transparency of the underlying memory read ports
    res = Result(labels=[mtype, ("T" if transparent else "N") + ("R" if ror else "Q")])
    if gran is not None:
        res.labels.append("gran" if g >= 2 else "gran1")
    if elem is not None:
        res.labels.append("struct_shape" if elem == "struct" else "array_shape")

    h = Harness(
        lambda: MemoryBank(
            shape=make_shape(width, elem),
            depth=depth,
            granularity=gran_arg(gran, elem),
            transparent=transparent,
            read_on_resp=ror,
            read_ports=nr,
            write_ports=nw,
            memory_type=mem_class(mtype),
        )
    )
    flags = dict(
        ovf_used=False, ovf_write_hit=False, pend_write_hit=False, partial_write=False, partial_hit_pending=False,
        req_refused=False, req_resp_same_cycle=False, same_cycle_rw=False, ovf_changed_then_resp=False,
    )

    async def tb(ctx):
        ios = h.ios(["read_req", "read_resp", "write"])
        mem = [0] * depth
        pend = [[] for _ in range(nr)]  # per port: entries {addr, val (value fixed at request time), taints}
        partial_rows = set()  # rows that ever received a partial write
        last_waddrs = []
        for cyc, rec in enumerate(case["history"]):
            # ---- resolve selectors against the model (pre-state)
            reqs = {}
            writes = {}  # j -> (addr, data, mask)
            taken = []
            pend_addrs = [e["addr"] for p in pend for e in p]
            ovf_addrs = [p[0]["addr"] for p in pend if len(p) == 2]
            for j in range(nw):
                a = rec.get(f"write{j}")
                if a is None:
                    continue
                mode, sel, data, mask = a
                if mode == 1 and pend_addrs:
                    addr = pend_addrs[sel % len(pend_addrs)]
                elif mode >= 2 and (ovf_addrs or pend_addrs):
                    src = ovf_addrs or pend_addrs
                    addr = src[sel % len(src)]
                else:
                    addr = sel % depth
                while addr in taken:
                    addr = (addr + 1) % depth
                taken.append(addr)
                if gran is None:
                    mask = 1
                writes[j] = (addr, data, mask)
                args = {"addr": addr, "data": to_data(data, width, elem)}
                if gran is not None:
                    args["mask"] = mask
                reqs[f"write{j}"] = args
            req_addr = {}
            for i in range(nr):
                a = rec.get(f"read_req{i}")
                if a is not None:
                    mode, sel = a
                    if mode == 2 and taken:
                        addr = taken[sel % len(taken)]
                    elif mode == 1 and (last_waddrs or taken):
                        # a row whose address differs from a just-written row only above the low 1-3 address bits
                        src = last_waddrs or taken
                        base = src[sel % len(src)]
                        addr = (base + ((1 + (sel >> 5) % 3) << (1 + (sel >> 3) % 3))) % depth
                    elif mode == 3 and last_waddrs:
                        addr = last_waddrs[sel % len(last_waddrs)]
                    else:
                        addr = sel % depth
                    req_addr[i] = addr
                    reqs[f"read_req{i}"] = {"addr": addr}
                if rec.get(f"read_resp{i}") is not None:
                    reqs[f"read_resp{i}"] = {}
            last_waddrs = taken

            results, _ = await step(ctx, ios, reqs)
            res.stats["cycles"] = res.stats.get("cycles", 0) + 1

            for name, _io in ios:
                if results[name] is not None and name not in reqs:
                    return res.fail(f"cycle {cyc}: {name} ran without being requested")

            # ---- writes: always accepted; ideal memory after this cycle's writes
            newmem = list(mem)
            for j, (addr, data, mask) in writes.items():
                if results[f"write{j}"] is None:
                    return res.fail(f"cycle {cyc}: write{j} requested but not accepted")
                newmem[addr] = apply_mask(newmem[addr], data, mask, width, gran)
                partial = g >= 2 and mask not in (0, full)
                if partial:
                    flags["partial_write"] = True
                    partial_rows.add(addr)
                for i in range(nr):
                    for k, e in enumerate(pend[i]):
                        if e["addr"] != addr:
                            continue
                        flags["pend_write_hit"] = True
                        if len(pend[i]) == 2 and k == 0:
                            flags["ovf_write_hit"] = True
                            if newmem[addr] != mem[addr]:
                                e["ovf_changed"] = cyc
                        if partial:
                            flags["partial_hit_pending"] = True
                            if ror:
                                # F4: pending-response tracking looks at mask bit 0 only and replaces the whole word
                                e["taints"].add(KEY_F4)

            # ---- memory-port level read events (for attribution of the ILVT memory defects only)
            def port_read_events(i):
                """Entries whose value is (re)read from the memory's read port in this cycle, with the row read."""
                out = []
                if ror and pend[i]:
                    out.append(pend[i][-1])
                return out

            if ilvt:
                for i in range(nr):
                    for e in port_read_events(i):
                        _taint_ilvt(e, writes, case, g, full, port_transparent, partial_rows)

            for i in range(nr):
                npend = len(pend[i])
                rq, rs = f"read_req{i}", f"read_resp{i}"
                req_acc = results[rq] is not None
                resp_acc = results[rs] is not None
                # ---- admissibility
                if rs in reqs and resp_acc != (npend > 0):
                    return res.fail(
                        f"cycle {cyc}: {rs} requested with {npend} responses pending but accepted={resp_acc}"
                    )
                if rq in reqs and req_acc != (npend < 2):
                    return res.fail(
                        f"cycle {cyc}: {rq} requested with {npend} responses pending but accepted={req_acc}"
                    )
                if rq in reqs and npend == 2:
                    flags["req_refused"] = True
                # ---- response value
                if resp_acc:
                    e = pend[i][0]
                    a = e["addr"]
                    exp = (newmem[a] if transparent else mem[a]) if ror else e["val"]
                    got = from_data(results[rs]["data"], width, elem)
                    if got != exp:
                        cands = [k for k in KEY_ORDER if k in e["taints"]]
                        if isinstance(elem, int) and gran is not None and mtype != "Memory":
                            cands.insert(0, KEY_AS)  # the whole configuration is affected (write masks misread)
                        vkey = pick_key(ID, cands)
                        res.labels.append("mismatch:" + (vkey or "unattributed"))
                        return res.fail(
                            f"MemoryBank({mtype}, depth={depth}, width={width}, gran={gran}, "
                            f"transparent={transparent}, read_on_resp={ror}, r{nr}w{nw}) cycle {cyc}: {rs} returned "
                            f"{got} for row {a} (requested in cycle {e['cyc']}), ideal memory gives {exp}",
                            vkey=vkey,
                        )
                    pend[i].pop(0)
                    if npend == 2:
                        flags["ovf_used"] = True
                    if e.get("ovf_changed", cyc) < cyc:
                        flags["ovf_changed_then_resp"] = True
                if req_acc:
                    a = req_addr[i]
                    e = {"addr": a, "val": newmem[a] if transparent else mem[a], "taints": set(), "cyc": cyc}
                    if resp_acc:
                        flags["req_resp_same_cycle"] = True
                    if any(w[0] == a for w in writes.values()):
                        flags["same_cycle_rw"] = True
                    if ilvt:
                        _taint_ilvt(e, writes, case, g, full, port_transparent, partial_rows)
                    pend[i].append(e)
            mem[:] = newmem

    h.run(tb)
    for k, v in flags.items():
        if v:
            res.labels.append(k)
    res.nontrivial = flags["ovf_changed_then_resp"] and (g < 2 or flags["partial_hit_pending"])
    return res


def _taint_ilvt(e, writes, case, g, full, port_transparent, partial_rows):
    """The memory's read port reads row e['addr'] in a cycle with the given writes: mark the known ILVT memory defect
    regions (see C23) this read falls into."""
    r, width = e["addr"], case["width"]
    if port_transparent:
        for addr, _data, mask in writes.values():
            if mask == 0:
                continue
            if narrow(width, case["depth"]) and r >> width and addr in (r, r & ((1 << width) - 1)):
                e["taints"].add(KEY_F3)
            if g >= 2 and addr == r and mask != full:
                e["taints"].add(KEY_GT)
    if g >= 2 and case["nw"] >= 2 and r in partial_rows:
        e["taints"].add(KEY_GM)
