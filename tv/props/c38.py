"""C38 - encoders, one-hot multiplexers and selecting networks are correct."""

from hypothesis import strategies as st

from tv.comb import FULL_SPACE, Spec, drawn_vals, run_spec, space_size, to_signed
from tv.core import Result

ID = "C38"
ENGINE = "C"
EXHAUSTIVE = True  # refers to the enumerated part listed in RULE
TECHNIQUE = "exhaustive enumeration of all inputs at small sizes + property-based sampling of larger sizes against python oracles"
RULE = (
    "case = (component, size parameters[, drawn valuations]); the component is elaborated once and evaluated in ONE "
    "simulation for ALL admissible input valuations when that space is <= 2^14 points, else for 48-128 drawn ones "
    "(quick-tier Hypothesis cases carry drawn valuations above 2^11 points).  "
    "Enumerated completely (exhaustive=true refers to this list): OneHotMux (instance and .create) for 0-4 inputs of "
    "1-2 bit data, priority on/off, default on/off (non-priority: zero or one-hot selects only); one_hot_mux for 0-3 "
    "inputs with mixed widths/signedness, struct views and multi-bit select signals; MultiPriorityEncoder for widths "
    "1-9 x 1-4 outputs (instance, create, create_simple); RingMultiPriorityEncoder for widths 1-8 x 1-3 outputs with "
    "ALL first,last < width; StableSelectingNetwork for n 1-4 of 2-bit data and n 5-7 of 1-bit data; coding.Encoder, "
    "PriorityEncoder, Decoder, PriorityDecoder, GrayEncoder, GrayDecoder (definition, round trip and adjacency of "
    "consecutive codes) for widths 1-10.  Hypothesis: larger sizes (mux up to 7 inputs x 8 bits, encoders up to width "
    "24 / 5 outputs, networks up to n=9 x 6 bits, coding widths up to 24).  Only defined outputs are compared "
    "(encoder outputs whose valid bit is expected set, network outputs below output_cnt).  non-trivial = at least two "
    "distinct expected output tuples compared; labels count per-case input classes"
)
ASSUMPTIONS = [
    "amaranth.sim.Simulator is the trusted execution model",
    "non-priority multiplexers only get zero or one-hot selects; RingMultiPriorityEncoder only gets first, last < "
    "input_width; Decoder only gets i < width (values an index signal could additionally encode are out of contract)",
    "first == last on the ring encoder is the empty range [first, last)",
    "outputs beyond the number of valid entries are never compared; one_hot_mux without default and without a set "
    "select is undefined (OneHotMux documents 0 / the only input for that situation, which IS compared)",
    "coding.Encoder/PriorityEncoder document o = 0 when n is high, so o is compared there too",
    "OneHotMux.create with exactly one input, no default and no select set is not judged (the __init__ and create "
    "docstrings disagree: 'the only value' vs '0 vector')",
]

F5_KEY = "PriorityEncoder:i=0,non-pow2"
MUX0_KEY = "OneHotMux:n=0,no-default"
CODING = ["Encoder", "PriorityEncoder", "Decoder", "PriorityDecoder", "GrayEncoder", "GrayDecoder", "GrayRoundTrip"]


def budget(tier):
    return dict(examples=45, seconds=40) if tier == "quick" else dict(examples=500, seconds=400)


def exception_vkey(case, exc):
    p = case.get("p", {})
    if case.get("t") == "OneHotMux" and p.get("n") == 0 and not p.get("dflt") and p.get("api") == "inst":
        return MUX0_KEY
    return None


def _E():
    import transactron.utils.amaranth_ext.elaboratables as E

    return E


def _set_bits(v, w):
    return [i for i in range(w) if v >> i & 1]


def _mux_select_space(n, prio):
    """Number of admissible select codes and the map code -> raw select vector."""
    if prio:
        return 1 << n, (lambda c: c)
    return n + 1, (lambda c: 0 if c == 0 else 1 << (c - 1))


def make_spec(t, p) -> Spec:
    from amaranth import Cat, Module, Signal, Value, signed, unsigned
    from amaranth.lib import data

    if t == "OneHotMux":
        n, w, prio, dflt, api, kind, selw = p["n"], p["w"], p["prio"], p["dflt"], p["api"], p["kind"], p.get("selw", 1)
        if api == "create" and n == 0:
            dflt = True  # create() documents a ValueError without inputs and without default
        ncodes, sel_raw = _mux_select_space(n, prio)
        info = {}

        def shape():
            if kind == "struct" and w >= 2:
                return data.StructLayout({"a": unsigned(1), "b": signed(w - 1)})
            if kind == "array":
                return data.ArrayLayout(unsigned(1), w)
            return unsigned(w)

        def build():
            sh = shape()
            if api == "inst":
                dut = _E().OneHotMux(sh, n, priority=prio, has_default=dflt)
                ins = [("select", dut.select), ("inputs", dut.inputs)]
                if dflt:
                    ins.append(("default", dut.default_input))
                return dut, ins, [("output", dut.output)]
            m = Module()
            sels = [Signal(selw, name=f"sel{i}") for i in range(n)]
            vals = [Signal(sh, name=f"in{i}") for i in range(n)]
            dfl = Signal(sh, name="default") if dflt else None
            out = _E().OneHotMux.create(m, list(zip(sels, vals)), dfl, priority=prio)
            info["shape_ok"] = _shape_of(out) == sh
            ins = [(f"sel{i}", s) for i, s in enumerate(sels)] + [(f"in{i}", v) for i, v in enumerate(vals)]
            if dflt:
                ins.append(("default", dfl))
            return m, ins, [("output", out)]

        def _shape_of(x):
            from transactron.utils.amaranth_ext.functions import shape_of

            return shape_of(x)

        # abstract valuation: (select code, selw-salt, in0..in{n-1}[, default])
        rng = [ncodes, (1 << selw) - 1 if api == "create" else 1] + [1 << w] * n + ([1 << w] if dflt else [])

        def encode(vec):
            sel = sel_raw(vec[0])
            vals = list(vec[2 : 2 + n])
            tail = [vec[2 + n]] if dflt else []
            if api == "inst":
                return [sel, sum(v << (w * i) for i, v in enumerate(vals))] + tail
            hot = vec[1] + 1  # any non-zero pattern of a multi-bit select signal counts as set
            return [hot if sel >> i & 1 else 0 for i in range(n)] + vals + tail

        def oracle(vec):
            s = _set_bits(sel_raw(vec[0]), n)
            vals = vec[2 : 2 + n]
            if s:
                return (vals[s[0]],)
            if dflt:
                return (vec[2 + n],)
            if n == 1:
                # __init__ documents "the only value if inputs_count == 1", create() documents "0 vector when all
                # select bits are 0": the two docstrings disagree, so create() is left unjudged here
                return (vals[0] if api == "inst" else None,)
            return (0,)  # documented for has_default=False

        def classify(vec):
            s = _set_bits(sel_raw(vec[0]), n)
            yield "none-selected" if not s else ("one-selected" if len(s) == 1 else "several-selected")

        def static(_):
            if api == "create" and not info.get("shape_ok"):
                return "OneHotMux.create did not return a value of the inputs' shape"

        return Spec(build, rng, oracle, classify, static=static, encode=encode)

    if t == "one_hot_mux":
        shapes_p, prio, dflt, selw, kind = p["shapes"], p["prio"], p["dflt"], p.get("selw", 1), p["kind"]
        n = len(shapes_p)
        if n == 0:
            dflt = True  # documented ValueError otherwise
        dsh = p.get("dshape", [3, False])
        if kind == "struct":
            wtot = max(2, shapes_p[0][0] if shapes_p else dsh[0])
            shapes_p = [[wtot, False]] * n
            dsh = [wtot, False]
        ncodes, sel_raw = _mux_select_space(n, prio)
        info = {}

        def build():
            from transactron.utils.amaranth_ext.functions import one_hot_mux

            m = Module()
            if kind == "struct":
                lay = data.StructLayout({"a": unsigned(1), "b": signed(dsh[0] - 1)})
                mk = lambda nm: Signal(lay, name=nm)  # noqa: E731
                vals = [mk(f"in{i}") for i in range(n)]
                dfl = mk("default") if dflt else None
            else:
                vals = [Signal(signed(w) if s else unsigned(w), name=f"in{i}") for i, (w, s) in enumerate(shapes_p)]
                dfl = Signal(signed(dsh[0]) if dsh[1] else unsigned(dsh[0]), name="default") if dflt else None
            sels = [Signal(selw, name=f"sel{i}") for i in range(n)]
            out = one_hot_mux(list(zip(sels, vals)), dfl, priority=prio)
            info["shape_ok"] = kind != "struct" or (isinstance(out, data.View) and out.shape() == lay)
            ins = [(f"sel{i}", s) for i, s in enumerate(sels)] + [(f"in{i}", v) for i, v in enumerate(vals)]
            if dflt:
                ins.append(("default", dfl))
            return m, ins, [("output", out)]

        rng = [ncodes, (1 << selw) - 1] + [1 << w for w, _ in shapes_p] + ([1 << dsh[0]] if dflt else [])

        def encode(vec):
            sel = sel_raw(vec[0])
            return [(vec[1] + 1) if sel >> i & 1 else 0 for i in range(n)] + list(vec[2:])

        def val(raw, sh):
            return to_signed(raw, sh[0]) if (sh[1] and kind != "struct") else raw

        def oracle(vec):
            s = _set_bits(sel_raw(vec[0]), n)
            if s:
                return (val(vec[2 + s[0]], shapes_p[s[0]]),)
            if dflt:
                return (val(vec[2 + n], dsh),)
            return (None,)

        def classify(vec):
            s = _set_bits(sel_raw(vec[0]), n)
            yield "none-selected" if not s else ("one-selected" if len(s) == 1 else "several-selected")

        def static(_):
            if not info.get("shape_ok"):
                return "one_hot_mux over struct views did not return a View of the layout"

        return Spec(build, rng, oracle, classify, static=static, encode=encode)

    if t in ("MultiPriorityEncoder", "RingMultiPriorityEncoder"):
        w, k, api = p["w"], p["k"], p["api"]
        ring = t.startswith("Ring")
        if api == "create_simple":
            k = 1

        def build():
            cls = getattr(_E(), t)
            if api == "inst":
                dut = cls(w, k)
                ins = [("input", dut.input)] + ([("first", dut.first), ("last", dut.last)] if ring else [])
                outs = []
                for j in range(k):
                    outs += [(f"valid{j}", dut.valids[j]), (f"out{j}", dut.outputs[j])]
                return dut, ins, outs
            m = Module()
            inp = Signal(w, name="input")
            extra = [Signal(range(w), name="first"), Signal(range(w), name="last")] if ring else []
            name = p.get("name")
            if api == "create_simple":
                pairs = [cls.create_simple(m, w, inp, *extra, name=name)]
            else:
                pairs = cls.create(m, w, inp, *extra, outputs_count=k, name=name)
            outs = []
            for j, (o, v) in enumerate(pairs):
                outs += [(f"valid{j}", v), (f"out{j}", o)]
            ins = [("input", inp)] + ([("first", extra[0]), ("last", extra[1])] if ring else [])
            return m, ins, outs

        def selected(vec):
            v = vec[0]
            if not ring:
                return _set_bits(v, w)
            f, l = vec[1], vec[2]
            order = list(range(f, l)) if f <= l else list(range(f, w)) + list(range(0, l))
            return [i for i in order if v >> i & 1]

        def oracle(vec):
            idx = selected(vec)
            exp = []
            for j in range(k):
                exp += [1, idx[j]] if j < len(idx) else [0, None]
            return tuple(exp)

        def classify(vec):
            c = len(selected(vec))
            yield "none-selected" if c == 0 else ("fewer-than-outputs" if c < k else ("exactly-outputs" if c == k else "more-than-outputs"))
            if ring:
                f, l = vec[1], vec[2]
                yield "first==last" if f == l else ("first>last" if f > l else "first<last")
                if f > l and any(i < l for i in selected(vec)):
                    yield "hit-after-wrap"
                if vec[0] and not selected(vec):
                    yield "set-bits-outside-range"

        names = []
        for j in range(k):
            names += [f"valids[{j}]", f"outputs[{j}]"]
        return Spec(build, [1 << w] + ([w, w] if ring else []), oracle, classify, out_names=names)

    if t == "StableSelectingNetwork":
        n, w = p["n"], p["w"]

        def build():
            dut = _E().StableSelectingNetwork(n, w)
            outs = [("output_cnt", dut.output_cnt)] + [(f"out{i}", dut.outputs[i]) for i in range(n)]
            return dut, [("valids", dut.valids), ("inputs", dut.inputs)], outs

        def encode(vec):
            return [vec[0], sum(v << (w * i) for i, v in enumerate(vec[1:]))]

        def oracle(vec):
            sel = [vec[1 + i] for i in _set_bits(vec[0], n)]
            return tuple([len(sel)] + sel + [None] * (n - len(sel)))

        def classify(vec):
            s = _set_bits(vec[0], n)
            if not s:
                yield "none-valid"
            elif len(s) == n:
                yield "all-valid"
            elif s != list(range(len(s))):
                yield "gaps-before-valid"
            else:
                yield "already-packed"

        return Spec(build, [1 << n] + [1 << w] * n, oracle, classify, encode=encode,
                    out_names=["output_cnt"] + [f"outputs[{i}]" for i in range(n)])

    if t in CODING:
        import transactron.utils.amaranth_ext.coding as coding

        w = p["w"]
        full = (1 << w) - 1
        if t in ("Encoder", "PriorityEncoder"):

            def build():
                dut = getattr(coding, t)(w)
                return dut, [("i", dut.i)], [("o", dut.o), ("n", dut.n)]

            def oracle(vec):
                v = vec[0]
                if t == "Encoder":
                    return (v.bit_length() - 1, 0) if (v and v & (v - 1) == 0) else (0, 1)
                return ((v & -v).bit_length() - 1, 0) if v else (0, 1)

            def classify(vec):
                v = vec[0]
                yield "in=0" if v == 0 else ("in=one-hot" if v & (v - 1) == 0 else "in=multi-hot")

            known = None
            if t == "PriorityEncoder" and w & (w - 1):
                known = lambda vec: F5_KEY if vec[0] == 0 else None  # noqa: E731
            return Spec(build, [1 << w], oracle, classify, known=known, out_names=["o", "n"])
        if t in ("Decoder", "PriorityDecoder"):

            def build():
                dut = getattr(coding, t)(w)
                return dut, [("i", dut.i), ("n", dut.n)], [("o", dut.o)]

            return Spec(build, [w, 2], lambda vec: (0 if vec[1] else 1 << vec[0],), lambda vec: ["n=1"] if vec[1] else ["n=0"])

        def gray(v):
            return v ^ (v >> 1)

        def ungray(g):
            b = 0
            while g:
                b ^= g
                g >>= 1
            return b

        if t == "GrayEncoder":

            def build():
                dut = coding.GrayEncoder(w)
                return dut, [("i", dut.i)], [("o", dut.o)]

            def post(vecs, rows):
                got = {v[0]: r[0] for v, r in zip(vecs, rows)}
                for v, g in got.items():
                    nxt = got.get((v + 1) & full)
                    if w >= 1 and nxt is not None and (v + 1) & full != v and bin(g ^ nxt).count("1") != 1:
                        return f"codes of {v} and {(v + 1) & full} ({g}, {nxt}) do not differ in exactly one bit"

            return Spec(build, [1 << w], lambda vec: (gray(vec[0]),), post=post)
        if t == "GrayDecoder":

            def build():
                dut = coding.GrayDecoder(w)
                return dut, [("i", dut.i)], [("o", dut.o)]

            return Spec(build, [1 << w], lambda vec: (ungray(vec[0]),))

        def build():  # GrayRoundTrip
            m = Module()
            m.submodules.enc = enc = coding.GrayEncoder(w)
            m.submodules.dec = dec = coding.GrayDecoder(w)
            m.d.comb += dec.i.eq(enc.o)
            return m, [("i", enc.i)], [("decoded", dec.o)]

        return Spec(build, [1 << w], lambda vec: (vec[0],))

    raise KeyError(t)


# ------------------------------------------------------------------------------------------------ case lists


def _case(t, **p):
    return {"t": t, "p": p, "vals": None}


def enumerate_cases(tier):
    cases = []
    for n in range(0, 5):
        for w in (1, 2):
            for prio in (False, True):
                for dflt in (False, True):
                    cases.append(_case("OneHotMux", n=n, w=w, prio=prio, dflt=dflt, api="inst", kind="plain"))
                    if n > 0 or dflt:
                        cases.append(_case("OneHotMux", n=n, w=w, prio=prio, dflt=dflt, api="create", kind="plain",
                                           selw=1 + (n % 2)))
    for kind in ("struct", "array"):
        for prio in (False, True):
            for dflt in (False, True):
                cases.append(_case("OneHotMux", n=3, w=2, prio=prio, dflt=dflt, api="inst", kind=kind))
                cases.append(_case("OneHotMux", n=2, w=3, prio=prio, dflt=dflt, api="create", kind=kind, selw=1))
    mixes = [[], [[2, False]], [[2, True]], [[1, False], [3, True]], [[3, True], [2, True]], [[2, False], [3, False]],
             [[2, True], [1, False], [3, True]], [[3, False], [2, True], [1, True]]]
    for shapes in mixes:
        for prio in (False, True):
            for dflt in (False, True):
                for dshape in ([3, True], [2, False]):
                    cases.append(_case("one_hot_mux", shapes=shapes, prio=prio, dflt=dflt, dshape=dshape, kind="plain",
                                       selw=1 + len(shapes) % 2))
    for n in (1, 2, 3):
        for prio in (False, True):
            for dflt in (False, True):
                cases.append(_case("one_hot_mux", shapes=[[2, False]] * n, prio=prio, dflt=dflt, dshape=[2, False],
                                   kind="struct", selw=1))
    for w in range(1, 10):
        for k in range(1, 5):
            cases.append(_case("MultiPriorityEncoder", w=w, k=k, api="inst"))
        cases.append(_case("MultiPriorityEncoder", w=w, k=2, api="create", name=None))
        cases.append(_case("MultiPriorityEncoder", w=w, k=3, api="create", name="enc"))
        cases.append(_case("MultiPriorityEncoder", w=w, k=1, api="create_simple", name=None))
    for w in range(1, 9):
        for k in range(1, 4):
            cases.append(_case("RingMultiPriorityEncoder", w=w, k=k, api="inst"))
        if w <= 6:
            cases.append(_case("RingMultiPriorityEncoder", w=w, k=2, api="create", name="ring"))
            cases.append(_case("RingMultiPriorityEncoder", w=w, k=1, api="create_simple", name=None))
    for n in range(1, 5):
        cases.append(_case("StableSelectingNetwork", n=n, w=2))
    for n in range(1, 8):
        cases.append(_case("StableSelectingNetwork", n=n, w=1))
    for w in range(1, 11):
        for t in CODING:
            cases.append(_case(t, w=w))
    for c in cases:
        assert space_size(make_spec(c["t"], c["p"]).ranges) <= FULL_SPACE, c
    return cases


@st.composite
def strategy(draw, tier="quick"):
    group = draw(st.sampled_from(["mux", "mux", "fmux", "mpe", "mpe", "ring", "ring", "ssn", "ssn", "coding"]))
    if group == "mux":
        t = "OneHotMux"
        p = {
            "n": draw(st.integers(0, 7)),
            "w": draw(st.integers(1, 8)),
            "prio": draw(st.booleans()),
            "dflt": draw(st.booleans()),
            "api": draw(st.sampled_from(["inst", "create"])),
            "kind": draw(st.sampled_from(["plain", "plain", "struct", "array"])),
            "selw": draw(st.integers(1, 3)),
        }
    elif group == "fmux":
        t = "one_hot_mux"
        shapes = draw(st.lists(st.tuples(st.integers(1, 8), st.booleans()).map(list), min_size=0, max_size=7))
        p = {
            "shapes": shapes,
            "prio": draw(st.booleans()),
            "dflt": draw(st.booleans()),
            "dshape": [draw(st.integers(1, 8)), draw(st.booleans())],
            "kind": draw(st.sampled_from(["plain", "plain", "struct"])),
            "selw": draw(st.integers(1, 3)),
        }
    elif group in ("mpe", "ring"):
        t = "MultiPriorityEncoder" if group == "mpe" else "RingMultiPriorityEncoder"
        p = {
            "w": draw(st.integers(9 if group == "ring" else 10, 24)),
            "k": draw(st.integers(1, 5)),
            "api": draw(st.sampled_from(["inst", "inst", "create", "create_simple"])),
            "name": draw(st.sampled_from([None, "enc"])),
        }
    elif group == "ssn":
        t = "StableSelectingNetwork"
        p = {"n": draw(st.integers(3, 9)), "w": draw(st.integers(2, 6))}
    else:
        t = draw(st.sampled_from(CODING))
        p = {"w": draw(st.integers(11, 24))}
    spec = make_spec(t, p)
    full_below = FULL_SPACE if tier == "thorough" else 1 << 11
    vals = draw(drawn_vals(spec.ranges, 48, 128 if tier == "thorough" else 96, full_below))
    return {"t": t, "p": p, "vals": vals}


def run_case(case) -> Result:
    t, p = case["t"], case["p"]
    res = Result(labels=[t])
    if t in ("OneHotMux", "one_hot_mux"):
        n_in = p["n"] if t == "OneHotMux" else len(p["shapes"])
        forced = n_in == 0 and (t == "one_hot_mux" or p["api"] == "create")  # documented ValueError otherwise
        res.labels += ["priority" if p["prio"] else "one-hot", "with-default" if (p["dflt"] or forced) else "no-default"]
        if t == "OneHotMux":
            res.labels.append(f"api={p['api']}")
        kind = p["kind"]
        if t == "OneHotMux" and kind == "struct" and p["w"] < 2:
            kind = "plain"
        res.labels.append(f"data={kind}")
    elif t.endswith("MultiPriorityEncoder"):
        res.labels += [f"api={p['api']}", f"outputs={1 if p['api'] == 'create_simple' else p['k']}"]
    elif t in CODING:
        res.labels.append("width=pow2" if p["w"] & (p["w"] - 1) == 0 else "width=non-pow2")
    run_spec(res, f"{t}{p}", make_spec(t, p), case["vals"])
    return res
