"""C30 - InputSampler.get / OutputBuffer.put follow their (optionally synchronised) trigger."""

from hypothesis import strategies as st

from tv.core import Result
from tv.cyc import Harness, step, to_py

ID = "C30"
ENGINE = "B"
TECHNIQUE = "cycle driver + trigger-history model (readiness derived from the raw trigger history)"
RULE = (
    "case = (component InputSampler|OutputBuffer, edge, polarity, synchronize - all 16 combinations, layout of 0-2 "
    "fields of 1..8 bits (the empty layout = a plain event input), history: per cycle the raw trigger bit (drawn as run lengths 1..4 so that both fast toggles "
    "and held levels occur, random initial level), the raw data word (sampler) and whether get/put is requested "
    "(mostly yes) with the put argument); model: s[t]=r[t-1] (s[0]=0) if synchronize else r[t]; p=s or not s by "
    "polarity; ready[t]=p[t] (level) or p[t] and not p[t-1] with p[-1] from s[-1]=0 (edge); non-trivial = requested "
    "calls were both accepted and refused AND (level mode: the active level changed during the history; edge mode: a "
    "requested call was refused while the active level was held for >= 2 cycles)"
)
ASSUMPTIONS = [
    "amaranth.sim.Simulator is the trusted execution model",
    "readiness is judged behaviourally: a requested call that is not accepted counts as 'not ready'",
    "the reset value of the synchroniser registers is 0 (the property's 'initial value 0'); with synchronize the data "
    "returned by a get in cycle 0 (before any input could have been registered) is not compared",
    "OutputBuffer.data is compared only after the first accepted put; it is expected to hold the most recent put",
]


def budget(tier):
    return dict(examples=120, seconds=30) if tier == "quick" else dict(examples=2000, seconds=360)


@st.composite
def strategy(draw, tier="quick"):
    kind = draw(st.sampled_from(["InputSampler", "OutputBuffer"]))
    edge = draw(st.booleans())
    polarity = draw(st.booleans())
    synchronize = draw(st.booleans())
    # an empty layout is a plain event input / output (a button): only the trigger matters
    widths = draw(st.lists(st.integers(1, 8), min_size=0 if draw(st.integers(0, 3)) == 0 else 1, max_size=2))
    hi = 40 if tier == "quick" else 160
    n = draw(st.integers(4, hi))
    level = draw(st.integers(0, 1))
    trig = []
    while len(trig) < n:
        run = draw(st.integers(1, 4))
        trig += [level] * run
        level ^= 1
    trig = trig[:n]
    req_w = draw(st.integers(3, 8))  # request weight out of 8
    hist = []
    for t in range(n):
        req = draw(st.integers(0, 7)) < req_w
        vals = [draw(st.integers(0, (1 << w) - 1)) for w in widths]
        hist.append({"r": trig[t], "d": vals, "req": req})
    return {
        "kind": kind,
        "edge": edge,
        "polarity": polarity,
        "synchronize": synchronize,
        "widths": widths,
        "history": hist,
    }


def expected_ready(trig, edge, polarity, synchronize):
    """Readiness per cycle derived from the raw trigger history, exactly as the property states it."""
    out = []
    s_prev = 0  # s[-1] = 0
    for t, r in enumerate(trig):
        s = (trig[t - 1] if t > 0 else 0) if synchronize else r
        p = s if polarity else 1 - s
        p_prev = s_prev if polarity else 1 - s_prev
        out.append(bool(p and not p_prev) if edge else bool(p))
        s_prev = s
    return out


def run_case(case) -> Result:
    from transactron.lib.basicio import InputSampler, OutputBuffer

    kind, edge, pol, sync = case["kind"], case["edge"], case["polarity"], case["synchronize"]
    widths, hist = case["widths"], case["history"]
    layout = [(f"f{i}", w) for i, w in enumerate(widths)]
    cfg = f"{'edge' if edge else 'level'}/{'pos' if pol else 'neg'}/{'sync' if sync else 'nosync'}"
    res = Result(labels=[kind, cfg])
    cls = InputSampler if kind == "InputSampler" else OutputBuffer
    h = Harness(lambda: cls(layout, edge=edge, polarity=pol, synchronize=sync))
    meth = "get" if kind == "InputSampler" else "put"
    if kind == "OutputBuffer" and "out" not in str(h.dut.signature.members["data"].flow).lower():
        # docstring says "data: MethodStruct, out"; the property statement is silent about the declared direction
        res.labels.append("note:OutputBuffer.data_declared_In")
    trig = [rec["r"] for rec in hist]
    ready = expected_ready(trig, edge, pol, sync)
    flags = dict(acc=False, refused=False, held_refused=False, level_change=False, early_edge=False)
    if len(trig) >= 2 and trig[0] != trig[1]:
        flags["early_edge"] = True
    if any(trig[i] != trig[i + 1] for i in range(len(trig) - 1)):
        flags["level_change"] = True

    def as_dict(vals):
        return {f"f{i}": v for i, v in enumerate(vals)}

    async def tb(ctx):
        ios = h.ios([meth])
        dut = h.dut
        last_put = None
        p_hist = []
        for t, rec in enumerate(hist):
            ctx.set(dut.trigger, rec["r"])
            if kind == "InputSampler":
                ctx.set(dut.data, as_dict(rec["d"]))
            reqs = {}
            if rec["req"]:
                reqs[meth] = {} if kind == "InputSampler" else as_dict(rec["d"])
            samples = [dut.data] if kind == "OutputBuffer" else []
            results, sampled = await step(ctx, ios, reqs, samples)
            res.stats["cycles"] = res.stats.get("cycles", 0) + 1
            acc = results[meth] is not None
            if acc and not rec["req"]:
                return res.fail(f"cycle {t}: {meth} ran without being requested")
            if rec["req"] and acc != ready[t]:
                return res.fail(
                    f"cycle {t}: {meth} requested, expected ready={ready[t]} from trigger history "
                    f"{trig[max(0, t - 2):t + 1]} ({cfg}) but accepted={acc}"
                )
            # bookkeeping for the non-triviality rule
            s = (trig[t - 1] if t > 0 else 0) if sync else rec["r"]
            p = s if pol else 1 - s
            p_hist.append(p)
            if rec["req"]:
                if acc:
                    flags["acc"] = True
                else:
                    flags["refused"] = True
                    if edge and t >= 1 and p and p_hist[t - 1]:
                        flags["held_refused"] = True
            if kind == "InputSampler":
                if acc:
                    if sync:
                        if t == 0:
                            res.labels.append("get_at_cycle0_sync")
                        else:
                            exp = as_dict(hist[t - 1]["d"])
                            if results[meth] != exp:
                                return res.fail(
                                    f"cycle {t}: get returned {results[meth]}, expected data of cycle {t - 1} {exp}"
                                )
                    else:
                        exp = as_dict(rec["d"])
                        if results[meth] != exp:
                            return res.fail(f"cycle {t}: get returned {results[meth]}, expected current data {exp}")
            else:
                if last_put is not None and sampled[0] != last_put:
                    return res.fail(f"cycle {t}: data is {sampled[0]}, expected the last put {last_put}")
                if acc:
                    last_put = as_dict(rec["d"])
        if kind == "OutputBuffer" and last_put is not None:
            final = to_py(ctx.get(dut.data))
            if final != last_put:
                return res.fail(f"after the history: data is {final}, expected the last put {last_put}")

    h.run(tb)
    for k, v in flags.items():
        if v:
            res.labels.append(k)
    if edge:
        res.nontrivial = flags["acc"] and flags["refused"] and flags["held_refused"]
    else:
        res.nontrivial = flags["acc"] and flags["refused"] and flags["level_change"]
    return res
