"""C16 - Stack behaves as a bounded LIFO."""

from hypothesis import strategies as st

from tv.core import Result
from tv.cyc import Harness, step
from tv.queues import capped_history, check_accept

ID = "C16"
ENGINE = "B"
TECHNIQUE = "cycle-accurate driver + python list as reference model"
RULE = (
    "case = (depth 1..9, layout of 1-2 fields of 1..8 bits, history of per-cycle request vectors "
    "read/peek/write/clear with write data; clear is kept rare); model = bounded python list stepped with the "
    "observed accepted set, read+write in one cycle = pop then push; non-trivial = the history had a cycle with read "
    "and write both accepted AND a push that made the stack full AND a read/peek that returned an element pushed "
    "while other elements were below it (labels: npo2 = depth not a power of two, rw_at_full, clear_write)"
)
ASSUMPTIONS = [
    "amaranth.sim.Simulator is the trusted execution model",
    "readiness is judged behaviourally: a requested call that is not accepted counts as 'not ready'",
    "each method has a single caller (SimpleTestCircuit), so exclusivity of peek is not probed",
]


# fill, contention (everything requested), drain, push/pop churn with an occasional clear
PROFILES = [
    {"write": 7, "read": 1, "peek": 6},
    {"write": 8, "read": 8, "peek": 8},
    {"write": 1, "read": 6, "peek": 6},
    {"write": 6, "read": 5, "peek": 4, "clear": 1},
]


def budget(tier):
    return dict(examples=200, seconds=40) if tier == "quick" else dict(examples=1200, seconds=300)


@st.composite
def strategy(draw, tier="quick"):
    depth = draw(st.integers(1, 9))
    widths = draw(st.lists(st.integers(1, 8), min_size=1, max_size=2))
    methods = {"read": [], "peek": [], "write": [1 << w for w in widths], "clear": []}
    # in one case of three a second, independent caller of `read` or of `write` exists (io "read_b" / "write_b"): an
    # exclusive method serves one of two simultaneous callers, and each element is popped / pushed once
    second = draw(st.sampled_from([None, None, "read", "write"]))
    if second:
        methods[second + "_b"] = list(methods[second])
    hi = 60 if tier == "quick" else 200
    # optional push-only prefix (part of the history) so that deep and full stacks are common for every depth
    pre = [
        {"read": None, "peek": [], "write": [draw(st.integers(0, (1 << w) - 1)) for w in widths], "clear": None}
        for _ in range(draw(st.integers(0, depth)))
    ]
    hist = pre + draw(capped_history(methods, 5, hi, caps={"clear": 2}, profiles=PROFILES))
    return {"depth": depth, "widths": widths, "second": second, "history": hist}


def run_case(case) -> Result:
    from transactron.lib import Stack

    depth, widths = case["depth"], case["widths"]
    layout = [(f"f{i}", w) for i, w in enumerate(widths)]
    npo2 = depth & (depth - 1) != 0
    res = Result(labels=[f"depth{depth}"] + (["npo2"] if npo2 else []))
    second = case.get("second")
    h = Harness(lambda: Stack(layout, depth), second_callers=(second,) if second else ())
    names = ["read", "peek", "write", "clear"] + ([second + "_b"] if second else [])
    if second:
        res.labels.append("two_callers_of_" + second)
    flags = dict(contended=False, rw_together=False, fill=False, deep_top=False, rw_at_full=False, clear_write=False, clear_read=False)

    async def tb(ctx):
        ios = h.ios(names)
        stack = []
        for cyc, rec in enumerate(case["history"]):
            reqs = {}
            for n in names:
                a = rec.get(n)
                if a is None:
                    continue
                reqs[n] = {f"f{i}": v for i, v in enumerate(a)} if n.startswith("write") else {}
            results, _ = await step(ctx, ios, reqs)
            res.stats["cycles"] = res.stats.get("cycles", 0) + 1
            level = len(stack)
            nonempty, notfull = level > 0, level < depth
            top = stack[-1] if stack else None
            info = f"(level {level}/{depth})"
            groups = {"read": ["read"], "peek": ["peek"], "write": ["write"], "clear": ["clear"]}
            if second:
                groups[second].append(second + "_b")
            accepted = {}
            for meth, ready in (("read", nonempty), ("peek", nonempty), ("write", notfull), ("clear", True)):
                callers = groups[meth]
                if len(callers) == 1:
                    if check_accept(res, cyc, meth, meth in reqs, ready, results[meth] is not None, info):
                        return
                    accepted[meth] = meth if results[meth] is not None else None
                    continue
                # two callers of one exclusive method: exactly one of the requesters is served when the method is ready
                req = [c for c in callers if c in reqs]
                acc = [c for c in callers if results[c] is not None]
                if any(c not in reqs for c in acc):
                    return res.fail(f"cycle {cyc}: {meth} ran for a caller that did not request it {info}")
                want = min(1, len(req)) if ready else 0
                if len(acc) != want:
                    return res.fail(
                        f"cycle {cyc}: callers {req} request {meth}, model ready={ready}: {len(acc)} calls accepted {acc}, "
                        f"an exclusive method serves exactly {want} {info}"
                    )
                accepted[meth] = acc[0] if acc else None
                if len(req) == 2:
                    flags["contended"] = True
            for n in ("read", "peek"):
                a = accepted[n]
                if a is not None:
                    if results[a] != top:
                        return res.fail(f"cycle {cyc}: {a} returned {results[a]} expected {top} {info}")
                    if level >= 2:
                        flags["deep_top"] = True
            r_acc = accepted["read"] is not None
            w_acc = accepted["write"] is not None
            c_acc = accepted["clear"] is not None
            if r_acc and w_acc:
                flags["rw_together"] = True
            if "read" in reqs and "write" in reqs and level == depth:
                flags["rw_at_full"] = True
            if c_acc and w_acc:
                flags["clear_write"] = True
            if c_acc and r_acc:
                flags["clear_read"] = True
            # read followed by push
            if r_acc:
                stack.pop()
            if w_acc:
                stack.append(reqs[accepted["write"]])
                if len(stack) == depth and not c_acc:
                    flags["fill"] = True
            if c_acc:
                stack.clear()

    h.run(tb)
    for k, v in flags.items():
        if v:
            res.labels.append(k)
    res.nontrivial = flags["rw_together"] and flags["fill"] and (flags["deep_top"] or depth == 1)
    if res.nontrivial and npo2:
        res.labels.append("nt_npo2")
    return res
