"""C18 - method transformers and connectors implement their documented function.

Eight components share this module; `case["comp"]` picks one and every component has its own small oracle
(`_check_<component>`).  The targets of a component are `Adapter` mocks: per cycle the case says for each target whether
it is ready and what it returns, and for each caller (an `AdapterTrans` on the provided method) whether it requests the
call and with which argument.
"""

from hypothesis import strategies as st

from tv.core import Result
from tv.cyc import Harness, step

ID = "C18"
ENGINE = "B"
TECHNIQUE = "cycle driver with mocked targets + per-component reference predicate"
RULE = (
    "case = (component out of ConnectTrans, CrossbarConnectTrans, MethodMap, MethodFilter, MethodProduct, "
    "MethodTryProduct, NonexclusiveWrapper, Collector; configuration: layouts of 0-2 fields of 1..8 bits, 1..3 targets "
    "/ callers, affine maps, condition kind, default, use_condition, combiner; history of 8..40 (thorough 120) cycles "
    "giving per caller request+argument and per target ready+return value, drawn in segments with their own request / "
    "readiness probabilities); oracle = one predicate per component evaluated every cycle on the observed accepted "
    "set (Collector: queue model + final drain); non-trivial = the history contains the component's mixed-readiness "
    "class: ConnectTrans exactly one side ready; Crossbar a cycle with more ready methods on one side than on the "
    "other (>=1 transfer); MethodMap/NonexclusiveWrapper request with target unready and another with it ready; "
    "MethodFilter request with unready target once with condition true and once false; MethodProduct / "
    "MethodTryProduct request while some but not all targets are ready (TryProduct also all and none; with a single "
    "target: unready and ready); Collector a "
    "cycle where a ready target has to wait (buffer occupied or another target taken), plus a forwarded and a buffered "
    "delivery.  In addition `enumerate_cases` runs 50-odd small configurations of the seven combinational components "
    "with a history that contains every input valuation once (label <component>:all_valuations)"
)
EXHAUSTIVE = False  # the enumerated part is exhaustive per configuration only
ASSUMPTIONS = [
    "amaranth.sim.Simulator is the trusted execution model",
    "targets are transactron.lib.Adapter mocks: `en` is the target's readiness, `data_in` its return value",
    "readiness is judged behaviourally: a requested call that is not accepted counts as 'not ready'",
    "eager (default) transaction scheduler",
    "NonexclusiveWrapper: the argument seen by the target is only checked when exactly one caller runs (the result of "
    "several simultaneous callers is documented as the user's responsibility)",
]

COMPONENTS = [
    "ConnectTrans",
    "CrossbarConnectTrans",
    "MethodMap",
    "MethodFilter",
    "MethodProduct",
    "MethodTryProduct",
    "NonexclusiveWrapper",
    "Collector",
]

RAW = 1 << 16


def budget(tier):
    return dict(examples=100, seconds=30) if tier == "quick" else dict(examples=800, seconds=300)


# ------------------------------------------------------------------------------------------------ helpers


def _lay(widths):
    return [(f"f{i}", w) for i, w in enumerate(widths)]


def _val(raw, widths):
    out = {}
    for i, w in enumerate(widths):
        out[f"f{i}"] = raw & ((1 << w) - 1)
        raw >>= w
    return out


def _mask(w):
    return (1 << w) - 1


# ------------------------------------------------------------------------------------------------ strategy

_widths1 = st.lists(st.integers(1, 8), min_size=1, max_size=2)
_widths0 = st.lists(st.integers(1, 8), min_size=0, max_size=2)


@st.composite
def _history(draw, ncallers, ntargets, lo, hi):
    nseg = draw(st.integers(1, 4))
    total = draw(st.integers(lo, hi))
    per = max(1, total // nseg)
    out = []
    for s in range(nseg):
        cw = [draw(st.integers(0, 8)) for _ in range(ncallers)]
        tw = [draw(st.integers(0, 8)) for _ in range(ntargets)]
        # "full" cycles (everybody requests, every target ready) with their own probability: the independent coins
        # alone rarely make three targets and a caller coincide
        fw = draw(st.integers(0, 3))
        ncyc = per if s < nseg - 1 else max(1, total - per * (nseg - 1))
        for _ in range(ncyc):
            # one draw per port and cycle: low 3 bits = coin against the segment weight, rest = raw value
            full = bool(fw) and draw(st.integers(0, 7)) < fw
            c, t = [], []
            for w in cw:
                x = draw(st.integers(0, 8 * RAW - 1))
                c.append(x >> 3 if full or (x & 7) < w else None)
            for w in tw:
                x = draw(st.integers(0, 8 * RAW - 1))
                t.append([int(full or (x & 7) < w), x >> 3])
            out.append({"c": c, "t": t})
    return out


@st.composite
def strategy(draw, tier="quick"):
    if draw(st.integers(0, 11)) == 0:
        w = draw(st.integers(1, 3))
        ks = st.one_of(st.none(), st.integers(0, (1 << w) - 1))
        return {"comp": "ConnectValidated", "k1": draw(ks), "k2": draw(ks), "w": w,
                "via": draw(st.sampled_from(["ctor", "create", "crossbar"]))}
    comp = draw(st.sampled_from(COMPONENTS + ["MethodFilter"]))  # MethodFilter has the largest configuration space
    cfg = {}
    ncallers, ntargets = 1, 1
    if comp == "ConnectTrans":
        cfg["iw"] = draw(_widths0)
        cfg["ow"] = draw(_widths0)
        ncallers, ntargets = 0, 2
    elif comp == "CrossbarConnectTrans":
        cfg["n1"] = draw(st.integers(1, 3))
        cfg["n2"] = draw(st.integers(1, 3))
        # at least 2 bits per direction: the low bits carry the port index so that values identify their source
        cfg["iw"] = [2 + draw(st.integers(0, 6))] + draw(st.lists(st.integers(1, 4), max_size=1))
        cfg["ow"] = [2 + draw(st.integers(0, 6))] + draw(st.lists(st.integers(1, 4), max_size=1))
        ncallers, ntargets = 0, cfg["n1"] + cfg["n2"]
    elif comp == "MethodMap":
        for k in ("mi", "ti", "to", "mo"):
            cfg[k] = draw(_widths1)
        # maps: per destination field (source field selector, a, b); None = identity (layouts forced equal)
        cfg["imap"] = draw(
            st.one_of(
                st.none(),
                st.lists(
                    st.tuples(st.integers(0, 1), st.integers(0, 7), st.integers(0, 255)).map(list),
                    min_size=2,
                    max_size=2,
                ),
            )
        )
        cfg["omap"] = draw(
            st.one_of(
                st.none(),
                st.lists(
                    st.tuples(st.integers(0, 1), st.integers(0, 7), st.integers(0, 255)).map(list),
                    min_size=2,
                    max_size=2,
                ),
            )
        )
    elif comp == "MethodFilter":
        cfg["iw"] = draw(_widths1)
        cfg["ow"] = draw(_widths1)
        w0 = cfg["iw"][0]
        kind = draw(st.sampled_from(["bit", "mask", "lt", "bit", "mask", "eq"]))
        k = draw(st.integers(0, w0 - 1)) if kind == "bit" else draw(st.integers(0, _mask(w0)))
        cfg["cond"] = [kind, k]
        cfg["default"] = draw(st.one_of(st.none(), st.integers(0, RAW - 1)))
        cfg["use_condition"] = draw(st.booleans())
    elif comp in ("MethodProduct", "MethodTryProduct"):
        ntargets = draw(st.integers(1, 3))
        cfg["iw"] = draw(_widths1)
        cfg["ows"] = [draw(_widths1) for _ in range(ntargets)]
        cfg["combiner"] = draw(st.booleans())
        cfg["cw"] = draw(st.integers(1, 8))
    elif comp == "NonexclusiveWrapper":
        ncallers = draw(st.integers(1, 3))
        cfg["iw"] = draw(_widths1)
        cfg["ow"] = draw(_widths1)
    elif comp == "Collector":
        ntargets = draw(st.integers(1, 3))
        cfg["ow"] = draw(_widths1)
    hi = 40 if tier == "quick" else 120
    hist = draw(_history(ncallers, ntargets, 8, hi))
    case = {"comp": comp, "cfg": cfg, "nc": ncallers, "nt": ntargets, "history": hist}
    # the component is built by its `create(...)` factory around existing target methods instead of by the constructor
    if comp in CREATABLE and draw(st.integers(0, 2)) == 0:
        case["via_create"] = True
        return case
    if comp == "MethodTryProduct" and cfg["combiner"] and draw(st.booleans()):
        # a rival transaction (outside the product) also calls target 0: in a cycle it is served, the product must
        # report that its own call of target 0 did NOT succeed
        cfg["rival"] = True
        case["rival"] = [draw(st.integers(0, 1)) for _ in hist]
    return case


def _all_valuations(callers, targets):
    """History that presents every valuation once: callers = list of argument-value counts (each caller: no request or
    one of that many raw values), targets = list of return-value counts (each target: ready x return value)."""
    import itertools

    copts = [[None] + list(range(n)) for n in callers]
    topts = [[[r, v] for r in (0, 1) for v in range(n)] for n in targets]
    return [
        {"c": list(c), "t": [list(x) for x in t]} for c in itertools.product(*copts) for t in itertools.product(*topts)
    ]


def enumerate_cases(tier="quick"):
    """Small configurations with *all* input valuations in one history (the components except Collector are
    combinational, so this is exhaustive for the configuration).  Complements the random campaign."""
    cases = []

    def add(comp, cfg, callers, targets):
        cases.append(
            {
                "comp": comp,
                "cfg": cfg,
                "nc": len(callers),
                "nt": len(targets),
                "history": _all_valuations(callers, targets),
                "all_valuations": True,
            }
        )

    add("ConnectTrans", {"iw": [1], "ow": [1]}, [], [2, 2])
    add("ConnectTrans", {"iw": [], "ow": [2]}, [], [4, 1])
    add("ConnectTrans", {"iw": [], "ow": []}, [], [1, 1])
    for n1 in (1, 2, 3):
        for n2 in (1, 2, 3):
            # one return value per port is enough: the port index is put into the low bits
            add("CrossbarConnectTrans", {"n1": n1, "n2": n2, "iw": [2], "ow": [3]}, [], [1] * (n1 + n2))
    for imap, omap in (
        (None, None),
        ([[0, 3, 1], [0, 1, 0]], None),
        (None, [[0, 5, 2], [0, 1, 0]]),
        ([[0, 3, 1], [0, 1, 0]], [[0, 5, 2], [0, 1, 0]]),
    ):
        add("MethodMap", {"mi": [2], "ti": [2], "to": [2], "mo": [2], "imap": imap, "omap": omap}, [4], [4])
    for uc in (False, True):
        for cond in (["bit", 0], ["bit", 1], ["lt", 2], ["eq", 1], ["mask", 1], ["mask", 3]):
            for default in (None, 1):
                add(
                    "MethodFilter",
                    {"iw": [2], "ow": [1], "cond": cond, "default": default, "use_condition": uc},
                    [4],
                    [2],
                )
    for comp in ("MethodProduct", "MethodTryProduct"):
        for n in (1, 2, 3):
            for combiner in (False, True):
                add(comp, {"iw": [1], "ows": [[1]] * n, "combiner": combiner, "cw": 2}, [2], [2] * n)
    for callers in (1, 2, 3):
        add("NonexclusiveWrapper", {"iw": [1], "ow": [1]}, [2] * callers, [2])
    for c in list(cases):
        if c["comp"] in CREATABLE:
            cases.append({**c, "via_create": True})
    for via in ("ctor", "create", "crossbar"):
        for k1 in (None, 0, 1, 3):
            for k2 in (None, 0, 2):
                cases.append({"comp": "ConnectValidated", "k1": k1, "k2": k2, "w": 2, "via": via})
    return cases


# ------------------------------------------------------------------------------------------------ circuits


def _make_nonexclusive(iw, ow, callers):
    from amaranth import Elaboratable, Module
    from transactron.lib import Adapter, AdapterTrans, NonexclusiveWrapper
    from transactron.testing import TestbenchIO

    class Circuit(Elaboratable):
        def __init__(self):
            self.wrapper = NonexclusiveWrapper(_lay(iw), _lay(ow))
            self.target = TestbenchIO(Adapter.create(self.wrapper.target))
            self.method = [TestbenchIO(AdapterTrans.create(self.wrapper.method)) for _ in range(callers)]

        def elaborate(self, platform):
            m = Module()
            m.submodules.wrapper = self.wrapper
            m.submodules.target = self.target
            for i, c in enumerate(self.method):
                m.submodules[f"caller{i}"] = c
            return m

    return Circuit()


CREATABLE = ("ConnectTrans", "CrossbarConnectTrans", "MethodMap", "MethodFilter", "MethodProduct", "MethodTryProduct",
             "Collector")


def _make_created(twid, create, attrs, has_method=True):
    """The component built by its `create` factory around target methods that exist already.  `attrs` maps the
    attribute names under which the targets are exposed (as required methods) to slices of the target list."""
    from amaranth import Elaboratable
    from transactron import TModule
    from transactron.core import Method, Required

    class Circuit(Elaboratable):
        method: Method
        target: Required[Method]
        targets: Required[list[Method]]
        method1: Required[Method]
        method2: Required[Method]
        methods1: Required[list[Method]]
        methods2: Required[list[Method]]

        def __init__(self):
            ts = [Method(i=_lay(a), o=_lay(r), name=f"ext_target{k}") for k, (a, r) in enumerate(twid)]
            self.tr = create(ts)
            if has_method:
                self.method = self.tr.method
            for name, (lo, hi) in attrs.items():
                setattr(self, name, ts[lo] if hi is None else ts[lo:hi])

        def elaborate(self, platform):
            m = TModule()
            m.submodules.tr = self.tr
            return m

    return Circuit()


def _make_tryproduct_rival(iw, ows, combiner):
    from amaranth import Elaboratable, Signal
    from transactron import TModule, Transaction
    from transactron.core import Methods, Method, Required
    from transactron.lib import MethodTryProduct

    class Circuit(Elaboratable):
        method: Method
        targets: Required[Methods]

        def __init__(self):
            self.tr = MethodTryProduct(_lay(iw), [_lay(o) for o in ows], combiner)
            self.method = self.tr.method
            self.targets = self.tr.targets
            self.rival_en = Signal()
            self.rival_arg = Signal(iw[0])

        def elaborate(self, platform):
            m = TModule()
            m.submodules.tr = self.tr
            with Transaction(name="rival").body(m, ready=self.rival_en):
                self.targets[0](m, {"f0": self.rival_arg, **{f"f{i}": 0 for i in range(1, len(iw))}})
            return m

    return Circuit()


def _affine(mp, src_widths, dst_widths):
    """(amaranth function, python function) of an affine field map; mp[j] = (source selector, a, b)."""

    def hw(_, arg):
        return {
            f"f{j}": getattr(arg, f"f{mp[j][0] % len(src_widths)}") * mp[j][1] + mp[j][2]
            for j in range(len(dst_widths))
        }

    def py(d):
        return {
            f"f{j}": (d[f"f{mp[j][0] % len(src_widths)}"] * mp[j][1] + mp[j][2]) & _mask(dst_widths[j])
            for j in range(len(dst_widths))
        }

    return hw, py


def _cond(kind, k):
    def hw(_, arg):
        if kind == "bit":
            return arg.f0[k]
        if kind == "lt":
            return arg.f0 < k
        if kind == "eq":
            return arg.f0 == k
        return arg.f0 & k  # multi-bit: "non-zero return value is interpreted as true"

    def py(d):
        v = d["f0"]
        if kind == "bit":
            return bool((v >> k) & 1)
        if kind == "lt":
            return v < k
        if kind == "eq":
            return v == k
        return (v & k) != 0

    return hw, py


# ------------------------------------------------------------------------------------------------ connected methods with validators


def _run_connect_validated(case) -> Result:
    """ConnectTrans / CrossbarConnectTrans (1x1) between two methods that are defined by the user circuit and may carry
    `validate_arguments` (argument != k): the connecting transaction transfers exactly when both methods are ready and
    each accepts what the other returns; then each receives the other's result.  All valuations of (ready1, ready2,
    data1, data2) are applied."""
    from amaranth import Elaboratable, Signal
    from amaranth.sim import Simulator
    from transactron import Method, TModule, def_method
    from transactron.core import TransactronContextElaboratable
    from transactron.lib import ConnectTrans, CrossbarConnectTrans
    from transactron.utils.dependencies import DependencyContext, DependencyManager

    k1, k2, via, w = case["k1"], case["k2"], case["via"], case["w"]
    res = Result(labels=["ConnectValidated", f"ConnectValidated:{via}"])
    if k1 is not None or k2 is not None:
        res.labels.append("ConnectValidated:validator")

    class Circuit(Elaboratable):
        def __init__(self):
            self.r = [Signal(name=f"r{i}") for i in range(2)]
            self.d = [Signal(w, name=f"d{i}") for i in range(2)]
            self.got = [Signal(w, name=f"got{i}") for i in range(2)]
            self.meth = [Method(i=[("f0", w)], o=[("f0", w)], name=f"side{i}") for i in range(2)]

        def elaborate(self, platform):
            m = TModule()
            for i, k in enumerate((k1, k2)):
                kw = {} if k is None else {"validate_arguments": (lambda kk: (lambda f0: f0 != kk))(k)}

                def define(i, kw):
                    @def_method(m, self.meth[i], ready=self.r[i], **kw)
                    def _(f0):
                        m.d.comb += self.got[i].eq(f0)
                        return {"f0": self.d[i]}

                define(i, kw)

            if via == "ctor":
                ct = ConnectTrans([("f0", w)], [("f0", w)])
                ct.method1.provide(self.meth[0])
                ct.method2.provide(self.meth[1])
            elif via == "create":
                ct = ConnectTrans.create(self.meth[0], self.meth[1])
            else:
                ct = CrossbarConnectTrans.create(self.meth[0], self.meth[1])
            m.submodules.ct = ct
            return m

    c = Circuit()
    dm = DependencyManager()
    with DependencyContext(dm):
        sim = Simulator(TransactronContextElaboratable(c, dependency_manager=dm))
    out = [None]
    seen = dict(xfer=0, rejected=0)

    async def tb(ctx):
        for v in range(4 << (2 * w)):
            r1, r2 = v & 1, (v >> 1) & 1
            d1, d2 = (v >> 2) & ((1 << w) - 1), (v >> (2 + w)) & ((1 << w) - 1)
            for sg, x in zip(c.r + c.d, (r1, r2, d1, d2)):
                ctx.set(sg, x)
            run1, run2 = ctx.get(c.meth[0].run), ctx.get(c.meth[1].run)
            ok = bool(r1 and r2 and (k1 is None or d2 != k1) and (k2 is None or d1 != k2))
            if r1 and r2 and not ok:
                seen["rejected"] += 1
            if (run1, run2) != (int(ok), int(ok)):
                out[0] = (
                    f"ConnectValidated({via}, validators arg!={k1} / arg!={k2}): ready=({r1},{r2}) results=({d1},{d2}): "
                    f"methods run=({run1},{run2}), expected {int(ok)}"
                )
                return
            if ok:
                seen["xfer"] += 1
                g1, g2 = ctx.get(c.got[0]), ctx.get(c.got[1])
                if (g1, g2) != (d2, d1):
                    out[0] = f"ConnectValidated({via}): methods received ({g1},{g2}), the other sides returned ({d2},{d1})"
                    return

    with DependencyContext(dm):
        sim.add_testbench(tb)
        sim.run()
    res.stats["valuations"] = 4 << (2 * w)
    if out[0]:
        return res.fail(out[0])
    res.nontrivial = seen["xfer"] > 0 and (seen["rejected"] > 0 or (k1 is None and k2 is None))
    return res


# ------------------------------------------------------------------------------------------------ run_case


def run_case(case) -> Result:
    from amaranth import Cat, Mux
    from transactron.lib import (
        Collector,
        ConnectTrans,
        CrossbarConnectTrans,
        MethodFilter,
        MethodMap,
        MethodProduct,
        MethodTryProduct,
    )

    if case["comp"] == "ConnectValidated":
        return _run_connect_validated(case)
    comp, cfg, nc, nt = case["comp"], case["cfg"], case["nc"], case["nt"]
    res = Result(labels=[comp])
    if case.get("all_valuations"):
        res.labels.append(f"{comp}:all_valuations")
    flags: dict[str, bool] = {}
    ctx_py: dict = {}

    def flag(name):
        flags[name] = True

    # ---- build: caller names / arg widths, target names / (arg widths, ret widths)
    test_circuit = True
    if comp == "ConnectTrans":
        iw, ow = cfg["iw"], cfg["ow"]
        make = lambda: ConnectTrans(_lay(iw), _lay(ow))  # noqa: E731
        cnames, tnames = [], ["method1", "method2"]
        cwid = []
        twid = [(iw, ow), (ow, iw)]  # (argument widths, return widths)
    elif comp == "CrossbarConnectTrans":
        iw, ow, n1, n2 = cfg["iw"], cfg["ow"], cfg["n1"], cfg["n2"]
        make = lambda: CrossbarConnectTrans(n1, n2, _lay(iw), _lay(ow))  # noqa: E731
        cnames, tnames = [], ["methods1", "methods2"]
        cwid = []
        twid = [(iw, ow)] * n1 + [(ow, iw)] * n2
        res.labels.append(f"CrossbarConnectTrans:{n1}x{n2}")
    elif comp == "MethodMap":
        mi, ti, to, mo = cfg["mi"], cfg["ti"], cfg["to"], cfg["mo"]
        if cfg["imap"] is None:
            mi = ti
            i_tr, ctx_py["i"] = None, (lambda d: d)
        else:
            hw, ctx_py["i"] = _affine(cfg["imap"], mi, ti)
            i_tr = (_lay(mi), hw)
        if cfg["omap"] is None:
            mo = to
            o_tr, ctx_py["o"] = None, (lambda d: d)
        else:
            hw, ctx_py["o"] = _affine(cfg["omap"], to, mo)
            o_tr = (_lay(mo), hw)
        make = lambda: MethodMap(_lay(ti), _lay(to), i_transform=i_tr, o_transform=o_tr)  # noqa: E731
        cnames, tnames = ["method"], ["target"]
        cwid, twid = [mi], [(ti, to)]
        res.labels.append(f"MethodMap:i={'id' if i_tr is None else 'fn'},o={'id' if o_tr is None else 'fn'}")
    elif comp == "MethodFilter":
        iw, ow = cfg["iw"], cfg["ow"]
        hw, ctx_py["cond"] = _cond(*cfg["cond"])
        default = None if cfg["default"] is None else _val(cfg["default"], ow)
        ctx_py["default"] = _val(0, ow) if default is None else default
        uc = cfg["use_condition"]
        make = lambda: MethodFilter(_lay(iw), _lay(ow), hw, default, use_condition=uc)  # noqa: E731
        cnames, tnames = ["method"], ["target"]
        cwid, twid = [iw], [(iw, ow)]
        res.labels.append(f"MethodFilter:use_condition={int(uc)}")
        res.labels.append(f"MethodFilter:cond={cfg['cond'][0]}")
    elif comp in ("MethodProduct", "MethodTryProduct"):
        iw, ows, cw = cfg["iw"], cfg["ows"], cfg["cw"]
        if comp == "MethodProduct":
            combiner = ([("f0", cw)], lambda _, vs: {"f0": sum(v.f0 for v in vs)}) if cfg["combiner"] else None
            make = lambda: MethodProduct(_lay(iw), [_lay(o) for o in ows], combiner)  # noqa: E731
        else:
            combiner = (
                (
                    [("succ", nt), ("val", cw)],
                    lambda _, vs: {"succ": Cat(s for s, _ in vs), "val": sum(Mux(s, r.f0, 0) for s, r in vs)},
                )
                if cfg["combiner"]
                else None
            )
            if cfg.get("rival"):
                make = lambda: _make_tryproduct_rival(iw, ows, combiner)  # noqa: E731
                res.labels.append("MethodTryProduct:rival")
            else:
                make = lambda: MethodTryProduct(_lay(iw), [_lay(o) for o in ows], combiner)  # noqa: E731
        cnames, tnames = ["method"], ["targets"]
        cwid, twid = [iw], [(iw, o) for o in ows]
        res.labels.append(f"{comp}:n={nt},combiner={int(cfg['combiner'])}")
    elif comp == "NonexclusiveWrapper":
        iw, ow = cfg["iw"], cfg["ow"]
        make = lambda: _make_nonexclusive(iw, ow, nc)  # noqa: E731
        test_circuit = False
        cnames, tnames = ["method"], ["target"]
        cwid, twid = [iw] * nc, [(iw, ow)]
        res.labels.append(f"NonexclusiveWrapper:callers={nc}")
    elif comp == "Collector":
        ow = cfg["ow"]
        make = lambda: Collector(nt, _lay(ow))  # noqa: E731
        cnames, tnames = ["method"], ["targets"]
        cwid, twid = [[]], [([], ow)] * nt
        res.labels.append(f"Collector:n={nt}")
    else:
        raise ValueError(comp)

    if case.get("via_create") and comp in CREATABLE:
        res.labels.append(f"{comp}:via_create")
        if comp == "ConnectTrans":
            create, attrs = (lambda ts: ConnectTrans.create(ts[0], ts[1])), {"method1": (0, None), "method2": (1, None)}
        elif comp == "CrossbarConnectTrans":
            k1 = cfg["n1"]
            create = lambda ts: CrossbarConnectTrans.create(ts[:k1] if k1 > 1 else ts[0], ts[k1:])  # noqa: E731
            attrs = {"methods1": (0, k1), "methods2": (k1, len(twid))}
        elif comp == "MethodMap":
            create, attrs = (lambda ts: MethodMap.create(ts[0], i_transform=i_tr, o_transform=o_tr)), {"target": (0, None)}
        elif comp == "MethodFilter":
            create = lambda ts: MethodFilter.create(ts[0], hw, default, use_condition=uc)  # noqa: E731
            attrs = {"target": (0, None)}
        elif comp == "MethodProduct":
            create, attrs = (lambda ts: MethodProduct.create(ts, combiner)), {"targets": (0, len(twid))}
        elif comp == "MethodTryProduct":
            create, attrs = (lambda ts: MethodTryProduct.create(ts, combiner)), {"targets": (0, len(twid))}
        else:
            create, attrs = (lambda ts: Collector.create(ts)), {"targets": (0, len(twid))}
        make = lambda: _make_created(twid, create, attrs, has_method=bool(cnames))  # noqa: E731
    h = Harness(make, test_circuit=test_circuit)
    checker = globals()["_check_" + comp]
    state = {"q": []}

    async def tb(ctx):
        cios = h.ios(cnames)
        tios = h.ios(tnames)
        if len(cios) != nc or len(tios) != nt:
            return res.fail(
                f"{comp} exposes {len(cios)} provided / {len(tios)} required methods, configuration says {nc} / {nt}",
                vkey=_vkey(case),
            )
        ios = cios + tios
        hist = list(case["history"])
        if comp == "Collector":
            hist = hist + [None] * (2 + 1)  # drain: at most one buffered element; then one refusing read
        for cyc, rec in enumerate(hist):
            if rec is None:
                rec = {"c": [0], "t": [[0, 0]] * nt}
                drain = True
            else:
                drain = False
            reqs, cargs, trdy, tret = {}, [], [], []
            for (name, _), raw, wid in zip(cios, rec["c"], cwid):
                a = None if raw is None else _val(raw, wid)
                cargs.append(a)
                if a is not None:
                    reqs[name] = a
            for k, ((name, _), (rdy, raw), (_, rw)) in enumerate(zip(tios, rec["t"], twid)):
                if comp == "CrossbarConnectTrans":
                    idx = k if k < cfg["n1"] else k - cfg["n1"]
                    raw = (raw << 2) | idx
                r = _val(raw, rw)
                trdy.append(bool(rdy))
                tret.append(r)
                if rdy:
                    reqs[name] = r
            state["rival"] = None
            if cfg.get("rival") and not drain:
                ren = case["rival"][cyc] if cyc < len(case["rival"]) else 0
                # an argument that differs from the product caller's, so that the target's caller can be told apart
                base = cargs[0]["f0"] if cargs[0] is not None else 0
                rarg = (base + 1) & _mask(cfg["iw"][0])
                if rarg == base:
                    ren = 0
                ctx.set(h.dut.rival_en, ren)
                ctx.set(h.dut.rival_arg, rarg)
                if ren:
                    state["rival"] = {"f0": rarg, **{f"f{i}": 0 for i in range(1, len(cfg["iw"]))}}
            results, _ = await step(ctx, ios, reqs)
            res.stats["cycles"] = res.stats.get("cycles", 0) + 1
            cres = [results[n] for n, _ in cios]
            tgot = [results[n] for n, _ in tios]
            for k, g in enumerate(tgot):
                if g is not None and not trdy[k]:
                    return res.fail(f"cycle {cyc}: target {k} was called although it is not ready")
            for k, g in enumerate(cres):
                if g is not None and cargs[k] is None:
                    return res.fail(f"cycle {cyc}: caller {k} ran without requesting")
            msg = checker(cfg, ctx_py, state, cargs, cres, trdy, tret, tgot, flag, drain)
            if msg:
                return res.fail(
                    f"cycle {cyc}: {comp}: {msg} [callers={cargs} -> {cres}; targets ready={[int(x) for x in trdy]} "
                    f"ret={tret} called_with={tgot}]",
                    vkey=_vkey(case),
                )

    h.run(tb)
    for k in sorted(flags):
        res.labels.append(f"{comp}:{k}")
    need = _NT[comp]
    if comp in ("MethodProduct", "MethodTryProduct") and nt == 1:
        need = _NT1[comp]  # a single target cannot be "mixed"
    res.nontrivial = all(flags.get(k, False) for k in need)
    return res


def _vkey(case):
    """Region key of a failing case, derived from the configuration only."""
    comp, cfg = case["comp"], case.get("cfg", {})
    if comp == "MethodFilter":
        return f"MethodFilter:use_condition={int(cfg['use_condition'])},cond={cfg['cond'][0]}"
    return comp


def exception_vkey(case, exc):
    return _vkey(case) + ":exception"


_NT = {
    "ConnectTrans": ["one_side_ready", "transfer"],
    "CrossbarConnectTrans": ["unbalanced_ready", "transfer"],
    "MethodMap": ["req_target_unready", "called"],
    "MethodFilter": ["unready_cond_true", "unready_cond_false", "called", "default_returned"],
    "MethodProduct": ["req_mixed_ready", "called"],
    "MethodTryProduct": ["req_mixed_ready", "req_all_ready", "req_none_ready"],
    "NonexclusiveWrapper": ["req_target_unready", "called"],
    "Collector": ["ready_target_waits", "forwarded", "buffered_delivery"],
}


_NT1 = {"MethodProduct": ["req_none_ready", "called"], "MethodTryProduct": ["req_all_ready", "req_none_ready"]}

# ------------------------------------------------------------------------------------------------ oracles
# signature: (cfg, py, state, cargs, cres, trdy, tret, tgot, flag, drain) -> error message or None
#   cargs[k]  argument requested by caller k (None = no request)      cres[k]  its result (None = not accepted)
#   trdy[k]   target k ready          tret[k]  what it returns        tgot[k]  argument it was called with / None


def _check_ConnectTrans(cfg, py, state, cargs, cres, trdy, tret, tgot, flag, drain):
    both = trdy[0] and trdy[1]
    if trdy[0] != trdy[1]:
        flag("one_side_ready")
    ran = [g is not None for g in tgot]
    if ran[0] != ran[1]:
        return "only one of the two methods ran"
    if ran[0] != both:
        return f"both ready={both} but transfer happened={ran[0]}"
    if both:
        flag("transfer")
        if tgot[0] != tret[1]:
            return "method1 did not receive the result of method2"
        if tgot[1] != tret[0]:
            return "method2 did not receive the result of method1"
    return None


def _check_CrossbarConnectTrans(cfg, py, state, cargs, cres, trdy, tret, tgot, flag, drain):
    n1 = cfg["n1"]
    r1, r2 = trdy[:n1], trdy[n1:]
    ret1, ret2 = tret[:n1], tret[n1:]
    got1, got2 = tgot[:n1], tgot[n1:]
    ran1 = [i for i, g in enumerate(got1) if g is not None]
    ran2 = [j for j, g in enumerate(got2) if g is not None]
    if sum(r1) != sum(r2) and sum(r1) and sum(r2):
        flag("unbalanced_ready")
    if len(ran1) != len(ran2):
        return "different number of methods ran on the two sides"
    used = set()
    for i in ran1:
        js = [j for j in range(len(ret2)) if ret2[j] == got1[i]]  # values carry the port index: at most one
        if len(js) != 1:
            return f"methods1[{i}] received a value that no methods2 returned"
        j = js[0]
        if j not in ran2:
            return f"methods1[{i}] received the value of methods2[{j}] which did not run"
        if j in used:
            return f"methods2[{j}] paired twice"
        used.add(j)
        if got2[j] != ret1[i]:
            return f"methods2[{j}] did not receive the result of its partner methods1[{i}]"
    if ran1:
        flag("transfer")
    if len(ran1) >= 2:
        flag("two_transfers")
    idle1 = [i for i in range(n1) if r1[i] and i not in ran1]
    idle2 = [j for j in range(len(r2)) if r2[j] and j not in ran2]
    if idle1 and idle2:
        return f"methods1{idle1} and methods2{idle2} are ready but not connected (not maximal)"
    return None


def _check_MethodMap(cfg, py, state, cargs, cres, trdy, tret, tgot, flag, drain):
    req = cargs[0] is not None
    acc = cres[0] is not None
    if req and not trdy[0]:
        flag("req_target_unready")
    if acc != (req and trdy[0]):
        return f"requested={req}, target ready={trdy[0]} but accepted={acc}"
    if (tgot[0] is not None) != acc:
        return "target called without the method running (or vice versa)"
    if acc:
        flag("called")
        if tgot[0] != py["i"](cargs[0]):
            return f"target received {tgot[0]}, expected i_fun(arg)={py['i'](cargs[0])}"
        if cres[0] != py["o"](tret[0]):
            return f"caller received {cres[0]}, expected o_fun(ret)={py['o'](tret[0])}"
    return None


def _check_MethodFilter(cfg, py, state, cargs, cres, trdy, tret, tgot, flag, drain):
    req = cargs[0] is not None
    acc = cres[0] is not None
    called = tgot[0] is not None
    if not req:
        if called:
            return "target called without a request"
        return None
    c = py["cond"](cargs[0])
    if not trdy[0]:
        flag("unready_cond_true" if c else "unready_cond_false")
    if cfg["use_condition"]:
        exp_acc = trdy[0] or not c
    else:
        exp_acc = trdy[0]  # the target is locked even if it is not called
    if acc != exp_acc:
        return f"condition={c}, target ready={trdy[0]}: expected accepted={exp_acc}, got {acc}"
    if called != (acc and c):
        return f"condition={c}, accepted={acc} but target called={called}"
    if acc:
        if c:
            flag("called")
            if tgot[0] != cargs[0]:
                return "target received a different argument"
            if cres[0] != tret[0]:
                return f"caller received {cres[0]}, expected the target's result {tret[0]}"
        else:
            flag("default_returned")
            if cres[0] != py["default"]:
                return f"caller received {cres[0]}, expected the default {py['default']}"
    return None


def _check_MethodProduct(cfg, py, state, cargs, cres, trdy, tret, tgot, flag, drain):
    req = cargs[0] is not None
    acc = cres[0] is not None
    if req and not all(trdy):
        flag("req_mixed_ready" if any(trdy) else "req_none_ready")
    if acc != (req and all(trdy)):
        return f"requested={req}, all targets ready={all(trdy)} but accepted={acc}"
    for k, g in enumerate(tgot):
        if (g is not None) != acc:
            return f"target {k} called={g is not None} while method accepted={acc}"
        if acc and g != cargs[0]:
            return f"target {k} received a different argument"
    if acc:
        flag("called")
        exp = {"f0": sum(r["f0"] for r in tret) & _mask(cfg["cw"])} if cfg["combiner"] else tret[0]
        if cres[0] != exp:
            return f"caller received {cres[0]}, expected {exp}"
    return None


def _check_MethodTryProduct(cfg, py, state, cargs, cres, trdy, tret, tgot, flag, drain):
    req = cargs[0] is not None
    acc = cres[0] is not None
    if acc != req:
        return f"requested={req} but accepted={acc} (the method must never block on its targets)"
    if req:
        flag("req_all_ready" if all(trdy) else "req_mixed_ready" if any(trdy) else "req_none_ready")
    rival = state.get("rival")
    called = []  # targets really called BY THE PRODUCT this cycle
    for k, g in enumerate(tgot):
        if k == 0 and rival is not None:
            # target 0 is contended: it serves the rival or the product (either is fine) when ready
            if (g is not None) != trdy[0]:
                return f"target 0: ready={trdy[0]}, rival and/or product request it, but called={g is not None}"
            if g is not None and g != rival and not (acc and g == cargs[0]):
                return "target 0 received an argument nobody passed"
            by_product = g is not None and acc and g == cargs[0]
            if g is not None:
                flag("rival_served" if not by_product else "rival_lost")
            called.append(by_product)
            continue
        if (g is not None) != (acc and trdy[k]):
            return f"target {k}: ready={trdy[k]}, method accepted={acc}, but called={g is not None}"
        if g is not None and g != cargs[0]:
            return f"target {k} received a different argument"
        called.append(g is not None)
    if acc:
        if cfg["combiner"]:
            succ = sum(1 << k for k, c in enumerate(called) if c)
            val = sum(r["f0"] for k, r in enumerate(tret) if called[k]) & _mask(cfg["cw"])
            exp = {"succ": succ, "val": val}
        else:
            exp = {}
        if cres[0] != exp:
            return f"caller received {cres[0]}, expected {exp} (targets called by the product: {called})"
    return None


def _check_NonexclusiveWrapper(cfg, py, state, cargs, cres, trdy, tret, tgot, flag, drain):
    reqs = [k for k, a in enumerate(cargs) if a is not None]
    accs = [k for k, r in enumerate(cres) if r is not None]
    if reqs and not trdy[0]:
        flag("req_target_unready")
    exp = reqs if trdy[0] else []
    if accs != exp:
        return f"callers requesting={reqs}, target ready={trdy[0]}: expected accepted={exp}, got {accs}"
    if (tgot[0] is not None) != bool(accs):
        return f"target called={tgot[0] is not None} while callers running={accs}"
    if accs:
        flag("called")
        for k in accs:
            if cres[k] != tret[0]:
                return f"caller {k} received {cres[k]}, expected the target's result {tret[0]}"
        if len(accs) == 1:
            if tgot[0] != cargs[accs[0]]:
                return "target received a different argument than the single caller passed"
        else:
            flag("several_callers")
    return None


def _check_Collector(cfg, py, state, cargs, cres, trdy, tret, tgot, flag, drain):
    q = state["q"]
    req = cargs[0] is not None
    acc = cres[0] is not None
    consumed = [k for k, g in enumerate(tgot) if g is not None]
    new = [tret[k] for k in consumed]
    waiting = [k for k in range(len(trdy)) if trdy[k] and k not in consumed]
    if waiting:
        flag("ready_target_waits")
        if consumed:
            flag("arbitration")
    if acc:
        if q:
            if cres[0] != q[0]:
                return f"read returned {cres[0]}, expected the oldest undelivered result {q[0]}"
            flag("buffered_delivery")
            q.pop(0)
            q.extend(new)
        else:
            if cres[0] not in new:
                return f"read returned {cres[0]} but nothing is pending (consumed this cycle: {new})"
            flag("forwarded")
            new.remove(cres[0])
            q.extend(new)
    else:
        if req and q:
            return f"read requested with {len(q)} undelivered result(s) but not accepted"
        if req and not q and any(trdy) and not consumed:
            return "read requested, a target is ready, nothing pending: yet no target result was taken"
        q.extend(new)
    if len(q) > 1:
        flag("more_than_one_buffered")
    return None
