"""C01 - an exclusive method serves at most one active call per cycle."""

from hypothesis import strategies as st

from tv.designs import gen_conflict_graph_spec, gen_spec
from tv.props._core_a import run_design, tier_opts

ID = "C01"
ENGINE = "A"
RULE = (
    "case = generated design (1-4 methods, 1-3 transactions, If/Elif/Else, Switch, FSM, enable_call, nested "
    "transactions, provide aliases, one or two modules, eager or round-robin scheduler) evaluated under ALL input "
    "valuations when the input space is <= 512, else under 256 drawn valuations; oracle = for every exclusive method "
    "the number of active call sites (owner observed running, conditions and enable from the valuation) is <= 1, and "
    "two running transactions reaching one exclusive method do so through the same site or alt-exclusive sites; "
    "non-trivial = the design has an exclusive method with >= 2 call sites and some valuation ran >= 2 transactions"
)
ASSUMPTIONS = [
    "amaranth.sim.Simulator is the trusted execution model",
    "the static analysis of the generated spec (call sites, control contexts) is the oracle's knowledge of the program",
    "designs are well-formed by construction (repair pass); a design rejected by the library is reported by C11, not here",
]
TECHNIQUE = "grammar-based design generation + exhaustive input valuations against a semantic predicate"


def budget(tier):
    return dict(examples=70, seconds=45) if tier == "quick" else dict(examples=300, seconds=420)


def strategy(tier):
    general = gen_spec(**{**tier_opts(tier), **dict(allow_rels=True, allow_rdep=True, allow_nm=True)})
    # one case in four is a relation-heavy design (many small transactions, hub / chain conflict topologies)
    graph = st.sampled_from(["eager", "rr"]).flatmap(lambda sc: gen_conflict_graph_spec(sched=sc))
    return st.integers(0, 3).flatmap(lambda k: graph if k == 3 else general)


def run_case(case):
    res, an, orc, exc = run_design(case, ["c01"])
    if orc is None:
        return res
    multi = any(an.exclusive(m) and sum(1 for s in an.sites if s["callee"] == m) >= 2 for m in an.methods)
    if multi:
        res.labels.append("multi_site_exclusive")
    res.stats["multi_run_valuations"] = orc.stats["multi_run"]
    res.nontrivial = multi and orc.stats["multi_run"] > 0
    return res
