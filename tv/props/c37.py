"""C37 - shifters and rotators of transactron.utils.amaranth_ext.shifter are correct."""

from hypothesis import strategies as st

from tv.comb import FULL_SPACE, Spec, bits, drawn_vals, from_bits, run_spec, space_size
from tv.core import Result

ID = "C37"
ENGINE = "C"
EXHAUSTIVE = True  # refers to the enumerated part listed in RULE
TECHNIQUE = "exhaustive enumeration of small widths/lengths + property-based sampling of larger ones against python list oracles"
RULE = (
    "case = (function, width or (length, element kind, element width), placeholder kind, extra offset bits[, drawn "
    "valuations]); the function is instantiated in a Module and evaluated in ONE simulation for ALL (value, offset, "
    "placeholder) valuations with offset in 0..width when that space is <= 2^14 points, else for 48-128 drawn "
    "valuations (quick-tier Hypothesis cases carry drawn valuations above 2^11 points).  Enumerated completely (exhaustive=true refers to this list): shift_left/right for widths 1-7 with "
    "default, constant 0/1 and signal placeholders, the value given as an unsigned and as a signed signal; rotate_left/right for widths 1-7; generic_shift_left/right for "
    "widths 1-5 (all value1, value2); the six *_vec_* functions for lengths 1-7 of 1-bit elements, lengths 1-4 of "
    "2-bit plain/signed/ArrayLayout/StructLayout elements, lengths 1-3 of 3-bit elements (generic vec: lengths 1-3, "
    "element width <= 2), placeholders none/constant/signal, sequences given as python lists and as ArrayLayout "
    "views.  Hypothesis: widths/lengths up to 9 (scalars up to 24 bits), element widths up to 5, offset signals from 2 bits narrower (then only the offsets "
    "the signal can encode are evaluated) to 2 bits wider than needed.  non-trivial = at least two distinct expected results compared; labels count offset "
    "classes (0, == width, in between) per case"
)
ASSUMPTIONS = [
    "amaranth.sim.Simulator is the trusted execution model",
    "offsets are restricted to 0..width (resp. 0..length), the domain the docstrings' examples, the tests and the "
    "callers (WideFifo) use; larger offsets an offset signal could encode are out of contract and not generated",
    "vector variants are compared on the raw bit patterns of the elements (signedness of plain elements is not promised)",
    "generic_shift_left fills from the TOP bits/entries of value2 (forced by its documented use for rotate_left)",
]

SCALAR = ["shift_left", "shift_right", "rotate_left", "rotate_right", "generic_shift_left", "generic_shift_right"]
VEC = ["shift_vec_left", "shift_vec_right", "rotate_vec_left", "rotate_vec_right", "generic_shift_vec_left",
       "generic_shift_vec_right"]
ELEMS = ["plain", "signed", "array", "struct"]


def budget(tier):
    return dict(examples=45, seconds=40) if tier == "quick" else dict(examples=600, seconds=400)


# ------------------------------------------------------------------------------------------------ oracles (python lists)


def _shift_list(fn, d1, d2, k):
    """d1: the sequence (bits or entries, index 0 first) being shifted, d2: fill sequence of the same length."""
    n = len(d1)
    if fn.endswith("right"):  # entry i of the result is entry i+k of d1 followed by d2
        both = d1 + d2
        return [both[i + k] for i in range(n)]
    return [d1[i - k] if i >= k else d2[n - k + i] for i in range(n)]  # left: mirror image


def _kind(fn):
    core = fn.replace("_vec", "")
    return "generic" if core.startswith("generic") else ("rotate" if core.startswith("rotate") else "shift")


def _norm_vec(t, p):
    """Effective (element kind, placeholder kind, container) of a vector case (cases stay valid under shrinking)."""
    elem, ph, cont = p["elem"], p.get("ph", "none"), p.get("cont", "list")
    if _kind(t) != "shift":
        ph = "none"
    if elem == "struct" and p["ew"] < 2:
        elem = "plain"
    if cont == "view" and elem != "plain":
        cont = "list"
    return elem, ph, cont


def _S():
    import transactron.utils.amaranth_ext.shifter as S

    return S


def _offset_classes(k, n):
    return "offset=0" if k == 0 else ("offset=width" if k == n else "0<offset<width")


def make_spec(t, p) -> Spec:
    from amaranth import C, Cat, Module, Signal, Value, signed, unsigned
    from amaranth.lib import data
    from amaranth.utils import bits_for

    offx = p.get("offx", 0)
    if t in SCALAR:
        w, ph = p["w"], p.get("ph", "default")
        kind = _kind(t)
        if kind != "shift":
            ph = "default"

        def build():
            m = Module()
            # "sg": the shifted bit vector is handed over as a signed value (a ValueLike like any other; what is
            # promised is the bit pattern of the result)
            val = Signal(signed(w) if p.get("sg") else w, name="value")
            off = Signal(max(1, bits_for(w) + offx), name="offset")
            ins = [("value", val), ("offset", off)]
            fn = getattr(_S(), t)
            if kind == "generic":
                v2 = Signal(signed(w) if p.get("sg") == 2 else w, name="value2")
                ins.append(("value2", v2))
                out = fn(val, v2, off)
            elif kind == "rotate" or ph == "default":
                out = fn(val, off)
            elif ph == "signal":
                phs = Signal(1, name="placeholder")
                ins.append(("placeholder", phs))
                out = fn(val, off, phs)
            else:
                out = fn(val, off, C(1 if ph == "const1" else 0, 1))
            return m, ins, [(t, out)]

        # a narrow offset signal (offx < 0, e.g. Signal(range(width)) as WideFifo's column index) encodes fewer offsets
        rng = [1 << w, min(w + 1, 1 << max(1, bits_for(w) + offx))]
        if kind == "generic":
            rng.append(1 << w)
        elif ph == "signal":
            rng.append(2)

        def oracle(vec):
            d1 = bits(vec[0], w)
            if kind == "generic":
                d2 = bits(vec[2], w)
            elif kind == "rotate":
                d2 = d1
            else:
                fill = vec[2] if ph == "signal" else (1 if ph == "const1" else 0)
                d2 = [fill] * w
            return (from_bits(_shift_list(t, d1, d2, vec[1])),)

        def static(shapes):
            if shapes[0].width != w or shapes[0].signed:
                return f"result shape {shapes[0]} is not 'the same width as value' ({w})"

        return Spec(build, rng, oracle, lambda vec: [_offset_classes(vec[1], w)], static=static)

    if t in VEC:
        n, ew = p["n"], p["ew"]
        kind = _kind(t)
        elem, ph, cont = _norm_vec(t, p)
        phc = p.get("phc", 0) % (1 << ew)
        info = {}

        def shape():
            if elem == "plain":
                return unsigned(ew)
            if elem == "signed":
                return signed(ew)
            if elem == "array":
                return data.ArrayLayout(unsigned(1), ew)
            return data.StructLayout({"a": unsigned(1), "b": signed(ew - 1)})

        def build():
            m = Module()
            sh = shape()
            d1 = [Signal(sh, name=f"d{i}") for i in range(n)]
            off = Signal(max(1, bits_for(n) + offx), name="offset")
            ins = [(f"d{i}", s) for i, s in enumerate(d1)]
            ins.append(("offset", off))
            fn = getattr(_S(), t)
            seq = data.ArrayLayout(sh, n)(Cat(*d1)) if cont == "view" else d1
            if kind == "generic":
                d2 = [Signal(sh, name=f"e{i}") for i in range(n)]
                ins += [(f"e{i}", s) for i, s in enumerate(d2)]
                out = fn(seq, d2, off)
            elif kind == "rotate" or ph == "none":
                out = fn(seq, off)
            elif ph == "signal":
                phs = Signal(sh, name="placeholder")
                ins.append(("placeholder", phs))
                out = fn(seq, off, phs)
            else:
                out = fn(seq, off, C(phc, sh) if elem in ("plain", "signed") else sh.from_bits(phc))
            out = list(out)
            info["len"] = len(out)
            if elem in ("array", "struct"):
                info["shape_ok"] = all(isinstance(o, data.View) and o.shape() == sh for o in out)
            else:
                info["shape_ok"] = all(len(Value.cast(o)) == ew for o in out)
            return m, ins, [(f"r{i}", Value.cast(o).as_unsigned()) for i, o in enumerate(out)]

        rng = [1 << ew] * n + [min(n + 1, 1 << max(1, bits_for(n) + offx))]
        if kind == "generic":
            rng += [1 << ew] * n
        elif ph == "signal":
            rng.append(1 << ew)

        def oracle(vec):
            d1 = list(vec[:n])
            k = vec[n]
            if kind == "generic":
                d2 = list(vec[n + 1 : 2 * n + 1])
            elif kind == "rotate":
                d2 = d1
            else:
                fill = vec[n + 1] if ph == "signal" else (phc if ph == "const" else 0)
                d2 = [fill] * n
            return tuple(_shift_list(t, d1, d2, k))

        def static(shapes):
            if info.get("len") != n:
                return f"result has {info.get('len')} entries, 'the same length as data' is {n}"
            if not info.get("shape_ok"):
                return "result entries do not have the shape/width of the data entries"

        return Spec(build, rng, oracle, lambda vec: [_offset_classes(vec[n], n)], static=static,
                    out_names=[f"result[{i}]" for i in range(n)])

    raise KeyError(t)


# ------------------------------------------------------------------------------------------------ case lists


def _case(t, **p):
    return {"t": t, "p": p, "vals": None}


def enumerate_cases(tier):
    cases = []
    for w in range(1, 8):
        for t in ("shift_left", "shift_right"):
            for ph in ("default", "const0", "const1", "signal"):
                cases.append(_case(t, w=w, ph=ph, offx=0))
                cases.append(_case(t, w=w, ph=ph, offx=0, sg=1))
            cases.append(_case(t, w=w, ph="signal", offx=1))
            cases.append(_case(t, w=w, ph="const1", offx=-1))
        for t in ("rotate_left", "rotate_right"):
            cases.append(_case(t, w=w, offx=0))
            cases.append(_case(t, w=w, offx=1))
            cases.append(_case(t, w=w, offx=0, sg=1))
            cases.append(_case(t, w=w, offx=-1))
    for w in range(1, 6):
        for t in ("generic_shift_left", "generic_shift_right"):
            cases.append(_case(t, w=w, offx=0))
            cases.append(_case(t, w=w, offx=0, sg=1 + w % 2))
    shift_vec = ("shift_vec_left", "shift_vec_right")
    rot_vec = ("rotate_vec_left", "rotate_vec_right")
    gen_vec = ("generic_shift_vec_left", "generic_shift_vec_right")
    sizes = [(n, "plain", 1) for n in range(1, 8)]
    sizes += [(n, e, 2) for n in range(1, 5) for e in ELEMS]
    sizes += [(n, e, 3) for n in range(1, 4) for e in ("plain", "struct")]
    for n, e, ew in sizes:
        for t in shift_vec:
            for ph in ("none", "const", "signal"):
                cases.append(_case(t, n=n, elem=e, ew=ew, ph=ph, phc=(1 << ew) - 2 if ew > 1 else 1, cont="list", offx=0))
        for t in rot_vec:
            cases.append(_case(t, n=n, elem=e, ew=ew, cont="list", offx=0))
        if e == "plain":
            for t in shift_vec + rot_vec:
                cases.append(_case(t, n=n, elem=e, ew=ew, ph="none", cont="view", offx=1))
    for n in range(1, 4):
        for e, ew in (("plain", 1), ("plain", 2), ("struct", 2), ("array", 2)):
            for t in gen_vec:
                cases.append(_case(t, n=n, elem=e, ew=ew, cont="list", offx=0))
    for c in cases:
        assert space_size(make_spec(c["t"], c["p"]).ranges) <= FULL_SPACE, c
    return cases


@st.composite
def strategy(draw, tier="quick"):
    if draw(st.integers(0, 2)) == 0:
        t = draw(st.sampled_from(SCALAR))
        lo = 6 if t.startswith("generic") else 8
        p = {"w": draw(st.integers(lo, 24)), "ph": draw(st.sampled_from(["default", "const0", "const1", "signal"])),
             "offx": draw(st.sampled_from([-2, -1, -1, 0, 0, 1, 2])), "sg": draw(st.sampled_from([0, 0, 1, 2]))}
    else:
        t = draw(st.sampled_from(VEC))
        p = {
            "n": draw(st.integers(1, 9)),
            "elem": draw(st.sampled_from(ELEMS)),
            "ew": draw(st.integers(1, 5)),
            "ph": draw(st.sampled_from(["none", "const", "signal"])),
            "phc": draw(st.integers(0, 31)),
            "cont": draw(st.sampled_from(["list", "list", "view"])),
            "offx": draw(st.sampled_from([-2, -1, -1, 0, 0, 1, 2])),
        }
    spec = make_spec(t, p)
    full_below = FULL_SPACE if tier == "thorough" else 1 << 11
    vals = draw(drawn_vals(spec.ranges, 48, 128 if tier == "thorough" else 96, full_below))
    return {"t": t, "p": p, "vals": vals}


def run_case(case) -> Result:
    t, p = case["t"], case["p"]
    res = Result(labels=[t])
    if t in VEC:
        elem, ph, cont = _norm_vec(t, p)
        res.labels += [f"elem={elem}", f"cont={cont}"]
        if _kind(t) == "shift":
            res.labels.append(f"placeholder={ph}")
    elif _kind(t) == "shift":
        res.labels.append(f"placeholder={p.get('ph', 'default')}")
    if p.get("offx", 0) > 0:
        res.labels.append("wide-offset-signal")
    if p.get("offx", 0) < 0:
        res.labels.append("narrow-offset-signal")
    run_spec(res, f"{t}{p}", make_spec(t, p), case["vals"])
    return res
