"""C43 - TestbenchIO.call / call_try / CallTrigger perform exactly one call per success; MethodMock applies its
effects once per executed call and its return value reaches the caller in the same cycle."""

from hypothesis import strategies as st

from tv.core import HarnessError, Result

ID = "C43"
ENGINE = "B"
TECHNIQUE = "the helper API is driven as a user would inside PysimSimulator; witnesses are counters inside the DUT"
NPAT = 32  # period of the generated readiness patterns
RULE = (
    "case = (two readiness patterns of period 32 for two DUT methods that count their executions and return "
    "(cycle, executions so far); a script of 4..30 user-level operations: await io.call(...) (dict or kwargs), "
    "await io.call_try(...), plain ticks, CallTrigger with two calls / one call + one sampled method, awaited once, "
    "with until_done() or until_all_done(); plus a MethodMock on a required method called by a DUT transaction: "
    "generated go/argument sequence, enable() pattern, mock delay 0/1ns/2ns, optional validate_arguments, return "
    "value depending on the argument and on state changed by the effects). Oracle: call returns the result of the "
    "first ready cycle and the execution counter advanced by exactly one; call_try/CallTrigger entries are None "
    "iff the pattern is not ready in that cycle; counters never move without a call; the DUT transaction runs iff "
    "go and enable() (and the arguments validate), sees f(arg, effects so far) in that very cycle, and the effect "
    "count/log equals the executed calls after every cycle. Non-trivial = some call was blocked >= 2 cycles AND the "
    "mock was disabled in a cycle in which the caller wanted to call AND the mock ran at least twice"
)
ASSUMPTIONS = [
    "amaranth.sim.Simulator / transactron PysimSimulator scheduling is the trusted base; the DUT is a few lines of "
    "our own Transactron code whose counters are the independent witnesses",
    "the testbench applies the mock-side inputs 10 ns after a clock edge (mock delays are <= 2 ns), i.e. after the "
    "mock finished its post-edge work, as def_method_mock's `delay` parameter is documented to be used",
    "enable() is interpreted as 'the value it returned last before a clock edge decides that cycle'",
    "until_all_done() is modelled as repeating the calls every cycle until all succeed in one cycle",
]


def budget(tier):
    return dict(examples=80, seconds=40) if tier == "quick" else dict(examples=1500, seconds=360)


@st.composite
def pattern(draw):
    dens = draw(st.sampled_from([3, 2, 1, 5, 7, 1]))
    bits = [int(draw(st.integers(0, 7)) < dens) for _ in range(NPAT)]
    if not any(bits):
        bits[draw(st.integers(0, NPAT - 1))] = 1
    return bits


@st.composite
def strategy(draw, tier="quick"):
    pats = [draw(pattern()), draw(pattern())]
    if not any(a and b for a, b in zip(*pats)):
        pats[1][pats[0].index(1)] = 1  # until_all_done needs a cycle in which both methods are ready
    nops = draw(st.integers(4, 16 if tier == "quick" else 30))
    # region F9 (until_done on a trigger that also samples a plain signal) ends the script early: keep it to few cases
    f9_case = draw(st.integers(0, 7)) == 0
    ops = []
    for _ in range(nops):
        kind = draw(st.sampled_from(["call", "try", "trig", "wait", "call", "try", "trig"]))
        if kind == "call":
            ops.append(["call", draw(st.integers(0, 1)), draw(st.integers(0, 15)), draw(st.booleans())])
        elif kind == "try":
            ops.append(["try", draw(st.integers(0, 1)), draw(st.integers(0, 15)), draw(st.booleans())])
        elif kind == "wait":
            ops.append(["wait", draw(st.integers(1, 3))])
        else:
            mode = draw(st.sampled_from(["once", "until_done", "until_all_done", "once"]))
            which = draw(st.sampled_from(["both", "call0", "call1", "both"]))
            if mode == "until_all_done":
                which = "both"  # a sampled (not called) method never yields a result: the wait would not end
            # additionally sample a plain signal in the trigger; rarely together with until_done (region F9)
            samp = draw(st.integers(0, 7)) < 5 and (mode != "until_done" or f9_case)
            ops.append(["trig", mode, which, draw(st.integers(0, 15)), draw(st.integers(0, 15)), samp])
    ncyc = draw(st.integers(6, 40 if tier == "quick" else 120))
    go_w = draw(st.sampled_from([6, 4, 7, 2]))
    en_w = draw(st.sampled_from([5, 3, 7, 1, 8]))
    # arguments repeat often (a caller retrying the same call after it was withdrawn or refused)
    tvs = []
    for _ in range(ncyc):
        tvs.append(tvs[-1 - draw(st.integers(0, min(1, len(tvs) - 1)))] if tvs and draw(st.integers(0, 2)) == 0 else draw(st.integers(0, 15)))
    mock = {
        "go": [int(draw(st.integers(0, 7)) < go_w) for _ in range(ncyc)],
        "tv": tvs,
        "en": [int(draw(st.integers(0, 7)) < en_w) for _ in range(ncyc + 2)],
        "delay_ns": draw(st.sampled_from([0, 0, 1, 2])),
        "validate": draw(st.sampled_from([None, None, None, 0, 5, 15])),  # argument value that does not validate
        "reg": draw(st.booleans()),  # call request and argument come from registers inside the DUT
    }
    return {"pats": pats, "ops": ops, "mock": mock}


F9_KEY = "CallTrigger:until_done+sampled-value"


def mock_ret(v: int, effects: int) -> int:
    return (v * 3 + effects * 5 + 1) & 15


def run_case(case) -> Result:
    from amaranth import Elaboratable, Module, Signal

    from transactron import Method, Methods, Provided, Required, TModule, Transaction, def_methods
    from transactron.lib import Adapter, AdapterTrans
    from transactron.testing import CallTrigger, MethodMock, SimpleTestCircuit, TestbenchIO, def_method_mock
    from transactron.testing.simulator import PysimSimulator
    from transactron.utils.dependencies import DependencyContext, DependencyManager

    pats, ops, mock = case["pats"], case["ops"], case["mock"]
    res = Result(labels=[])
    bad = mock["validate"]

    class Dut(Elaboratable):
        m: Provided[Methods]
        tgt: Required[Method]

        def __init__(self):
            self.m = Methods(2, i=[("a", 4)], o=[("cyc", 12), ("cnt", 12)])
            self.tgt = Method(i=[("v", 4)], o=[("r", 4)])
            self.cyc = Signal(12)
            self.cnt = [Signal(12, name=f"cnt{j}") for j in range(2)]
            self.last_a = [Signal(4, name=f"last_a{j}") for j in range(2)]
            self.go, self.tv = Signal(), Signal(4)
            self.tdone, self.got, self.tcnt = Signal(), Signal(4), Signal(12)

        def elaborate(self, platform):
            m = TModule()
            m.d.sync += self.cyc.eq(self.cyc + 1)
            rdy = []
            for j in range(2):
                pat = Signal(NPAT, init=sum(b << i for i, b in enumerate(pats[j])), name=f"pat{j}")
                rdy.append(pat.bit_select(self.cyc[:5], 1))

            @def_methods(m, self.m, ready=lambda j: rdy[j])
            def _(j, a):
                m.d.sync += self.cnt[j].eq(self.cnt[j] + 1)
                m.d.sync += self.last_a[j].eq(a)
                return {"cyc": self.cyc, "cnt": self.cnt[j]}

            go_s, tv_s = self.go, self.tv
            if mock.get("reg"):
                # the call request and its argument come from registers, i.e. they change exactly at the clock edge
                # (hardware callers issuing back-to-back calls with changing arguments)
                go_r, tv_r = Signal(name="go_r"), Signal(4, name="tv_r")
                m.d.sync += [go_r.eq(self.go), tv_r.eq(self.tv)]
                go_s, tv_s = go_r, tv_r
            with Transaction().body(m, ready=go_s):
                r = self.tgt(m, v=tv_s)
                m.d.comb += self.got.eq(r.r)
                m.d.comb += self.tdone.eq(1)
                m.d.sync += self.tcnt.eq(self.tcnt + 1)
            return m

    class ManualTestCircuit(Elaboratable):
        def __init__(self, dut):
            self.dut = dut
            self.m = [TestbenchIO(AdapterTrans.create(x)) for x in dut.m]
            self.tgt = TestbenchIO(Adapter.create(dut.tgt).set(with_validate_arguments=True))

        def elaborate(self, platform):
            m = Module()
            m.submodules.dut = self.dut
            m.submodules += [*self.m, self.tgt]
            return m

    dm = DependencyManager()
    with DependencyContext(dm):
        dut = Dut()
        # validate_arguments only applies to Adapters created with with_validate_arguments (documented), which
        # SimpleTestCircuit does not do: use a hand-written test circuit (as test_validate_arguments.py does) then
        tc = SimpleTestCircuit(dut) if bad is None else ManualTestCircuit(dut)
        sim = PysimSimulator(tc, max_cycles=4000)

    errs: list[str] = []
    vkeys: list = []  # region key of the first error, if it lies in a known-defect region of the case
    flags = dict(blocked2=False, mock_off=False, try_none=False, trig_multi=False, invalid_arg=False)
    st_ = dict(effects=0, log=[], last_en=None, en_calls=0)

    def ready(j, c):
        return pats[j][c % NPAT] == 1

    # ------------------------------------------------------------------ part A: call / call_try / CallTrigger
    async def caller(ctx):
        n = [0, 0]

        def counters_ok(where):
            for j in range(2):
                if ctx.get(dut.cnt[j]) != n[j]:
                    errs.append(f"{where}: method {j} executed {ctx.get(dut.cnt[j])} times, {n[j]} calls succeeded")
                    return False
            return True

        def check_result(where, j, r, c, a):
            """r is the result of a call to method j that must have succeeded in cycle c with argument a."""
            if r is None:
                errs.append(f"{where}: no result although method {j} is ready in cycle {c}")
                return False
            if int(r.cyc) != c or int(r.cnt) != n[j]:
                errs.append(
                    f"{where}: result (cyc={int(r.cyc)}, cnt={int(r.cnt)}) but the call succeeds in cycle {c} "
                    f"as execution number {n[j]}"
                )
                return False
            n[j] += 1
            return True

        for k, op in enumerate(ops):
            c0 = ctx.get(dut.cyc)
            where = f"op {k} {op} at cycle {c0}"
            if op[0] == "call":
                _, j, a, as_dict = op
                io = tc.m[j]
                r = await (io.call(ctx, {"a": a}) if as_dict else io.call(ctx, a=a))
                c = next(c for c in range(c0, c0 + NPAT) if ready(j, c))
                if c - c0 >= 2:
                    flags["blocked2"] = True
                if not check_result(where, j, r, c, a):
                    return
                if ctx.get(dut.last_a[j]) != a:
                    errs.append(f"{where}: argument seen by the method {ctx.get(dut.last_a[j])}")
                    return
            elif op[0] == "try":
                _, j, a, as_dict = op
                io = tc.m[j]
                r = await (io.call_try(ctx, {"a": a}) if as_dict else io.call_try(ctx, a=a))
                if ready(j, c0):
                    if not check_result(where, j, r, c0, a):
                        return
                else:
                    flags["try_none"] = True
                    if r is not None:
                        errs.append(f"{where}: call_try returned a result although the method is not ready")
                        return
            elif op[0] == "wait":
                for _ in range(op[1]):
                    await ctx.tick()
            else:
                _, mode, which, a0, a1, samp = op
                vkey = F9_KEY if mode == "until_done" and samp else None
                called = [0, 1] if which == "both" else ([0] if which == "call0" else [1])
                args = [a0, a1]
                trig = CallTrigger(ctx)
                for j in range(2):
                    trig = trig.call(tc.m[j], a=args[j]) if j in called else trig.sample(tc.m[j])
                if samp:
                    trig = trig.sample(dut.cyc)
                if mode == "once":
                    r = await trig
                    c = c0
                elif mode == "until_done":
                    r = await trig.until_done()
                    c = next(c for c in range(c0, c0 + NPAT) if any(ready(j, c) for j in called))
                else:
                    c = next((c for c in range(c0, c0 + NPAT) if all(ready(j, c) for j in called)), None)
                    if which != "both" or c is None:
                        raise HarnessError("until_all_done would never return for this case (not generated)")
                    r = await trig.until_all_done()
                    for cc in range(c0, c):  # the repeated calls execute whenever one of the methods is ready
                        for j in called:
                            if ready(j, cc):
                                n[j] += 1
                if r is None or len(r) != 2 + samp:
                    errs.append(f"{where}: trigger returned {r!r}")
                    return
                if samp and int(r[2]) != c:
                    errs.append(f"{where}: trigger completed in cycle {int(r[2])}, expected {c}")
                    vkeys.append(vkey)
                    return
                if ctx.get(dut.cyc) != c + 1:
                    errs.append(f"{where}: trigger returned in cycle {ctx.get(dut.cyc)}, expected after cycle {c}")
                    vkeys.append(vkey)
                    return
                if c - c0 >= 2:
                    flags["blocked2"] = True
                nres = 0
                for j in range(2):
                    if j in called and ready(j, c):
                        nres += 1
                        if not check_result(where, j, r[j], c, args[j]):
                            return
                    elif r[j] is not None:
                        errs.append(f"{where}: entry {j} is {r[j]!r} although method {j} did not run")
                        return
                    else:
                        flags["try_none"] = True
                if nres == 2:
                    flags["trig_multi"] = True
            if not counters_ok(where + " (afterwards)"):
                return
        for _ in range(2):
            await ctx.tick()
        counters_ok("two idle cycles after the script")

    # ------------------------------------------------------------------ part B: MethodMock
    def enable():
        i = st_["en_calls"]
        st_["en_calls"] += 1
        st_["last_en"] = bool(mock["en"][i % len(mock["en"])])
        return st_["last_en"]

    mock_kwargs = dict(enable=enable, delay=mock["delay_ns"] * 1e-9)
    if bad is not None:
        mock_kwargs["validate_arguments"] = lambda v: v != bad

    @def_method_mock(lambda: tc.tgt, **mock_kwargs)
    def tgt_mock(v):
        seen = st_["effects"]

        @MethodMock.effect
        def eff():
            st_["effects"] += 1
            st_["log"].append(int(v))

        return {"r": mock_ret(int(v), seen)}

    async def mockdrv(ctx):
        dones, explog = 0, []
        seq = list(zip(mock["go"], mock["tv"]))
        if mock.get("reg"):
            seq = seq + [(0, 0)]
        prev = (0, 0)
        for c, (go_in, tv_in) in enumerate(seq):
            go, tv = prev if mock.get("reg") else (go_in, tv_in)
            prev = (go_in, tv_in)
            await ctx.delay(1e-8)
            en_now = st_["last_en"]
            if st_["effects"] != dones or st_["log"] != explog:
                errs.append(f"mock cycle {c}: {dones} calls executed {explog}, effects applied {st_['log']}")
                return
            ctx.set(dut.go, go_in)
            ctx.set(dut.tv, tv_in)
            *_, tdone, got = await ctx.tick().sample(dut.tdone, dut.got)
            valid = bad is None or tv != bad
            if go and not en_now:
                flags["mock_off"] = True
            if go and en_now and not valid:
                flags["invalid_arg"] = True
            if bool(tdone) != bool(go and en_now and valid):
                errs.append(
                    f"mock cycle {c}: caller go={go}, enable()={en_now}, argument valid={valid}, but the call "
                    f"{'ran' if tdone else 'did not run'}"
                )
                return
            if tdone:
                if got != mock_ret(tv, dones):
                    errs.append(
                        f"mock cycle {c}: caller got {int(got)} in the cycle of the call, the mock function returns "
                        f"{mock_ret(tv, dones)} for v={tv} after {dones} effects"
                    )
                    return
                dones += 1
                explog.append(tv)
        ctx.set(dut.go, 0)
        await ctx.delay(1e-8)
        if st_["effects"] != dones or st_["log"] != explog or ctx.get(dut.tcnt) != dones:
            errs.append(
                f"mock end: {dones} calls executed {explog} (DUT counter {ctx.get(dut.tcnt)}), effects {st_['log']}"
            )
        res.stats["mock_calls"] = dones

    with DependencyContext(dm):
        sim.add_mock(tgt_mock())
        sim.add_testbench(caller)
        sim.add_testbench(mockdrv)
        sim.run()

    res.stats["ops"] = len(ops)
    for k, v in flags.items():
        if v:
            res.labels.append(k)
    if mock["delay_ns"]:
        res.labels.append("mock-delay")
    if mock.get("reg"):
        res.labels.append("registered-caller")
    if errs:
        return res.fail(errs[0], vkeys[0] if vkeys else None)
    res.nontrivial = flags["blocked2"] and flags["mock_off"] and res.stats.get("mock_calls", 0) >= 2
    return res
