"""C22 - AsyncMemoryBank reads current contents."""

from hypothesis import strategies as st

from tv.core import Result
from tv.cyc import Harness, history, step
from tv.memx import ELEM_SHAPES, from_data, gran_arg, make_shape, to_data, SHAPES, apply_mask, granules

ID = "C22"
ENGINE = "B"
TECHNIQUE = "cycle-accurate method driver against an ideal array (reads see the pre-state, writes land at the edge)"
RULE = (
    "case = (1-3 read ports, 1-3 write ports, depth 2..9 (>= write ports), width 1..8, granularity None|divisor of "
    "width, history of per-cycle request vectors read_i(addr)/write_j(addr, data, mask) whose selectors aim reads at "
    "rows written in the same or the previous cycle; rows of simultaneous writes pairwise distinct); model = python "
    "list; non-trivial = some cycle reads a row that is written in the same cycle with different contents AND some "
    "cycle reads a row changed by a write of the previous cycle (AND, with >= 2 granules, a partial write occurred)"
)
ASSUMPTIONS = [
    "amaranth.sim.Simulator is the trusted execution model",
    "readiness is judged behaviourally; read and write have no readiness condition, so every requested call must run",
    "no two write calls of one cycle address the same row",
    "only amaranth.lib.memory.Memory is used as memory_type (the multiport memories reject asynchronous read ports)",
]


def budget(tier):
    return dict(examples=60, seconds=40) if tier == "quick" else dict(examples=600, seconds=300)


@st.composite
def strategy(draw, tier="quick"):
    nr = draw(st.integers(1, 3))
    nw = draw(st.integers(1, 3))
    depth = draw(st.integers(max(2, nw), 9))
    width, gran = draw(st.sampled_from(SHAPES))
    elem = None
    if draw(st.integers(0, 3)) == 0:
        width, gran, elem = draw(st.sampled_from(ELEM_SHAPES))
    g = granules(width, gran)
    methods = {}
    for i in range(nr):
        methods[f"read{i}"] = [4, 64]
    for j in range(nw):
        methods[f"write{j}"] = [64, 1 << width, 1 << g, 4]  # last: mode (see run_case)
    hi = 60 if tier == "quick" else 200
    hist = draw(history(methods, 5, hi))
    return {"nr": nr, "nw": nw, "depth": depth, "width": width, "gran": gran, "elem": elem, "history": hist}


def run_case(case) -> Result:
    from transactron.lib import AsyncMemoryBank

    nr, nw, depth, width, gran = case["nr"], case["nw"], case["depth"], case["width"], case["gran"]
    elem = case.get("elem")
    g = granules(width, gran)
    full = (1 << g) - 1
    res = Result(labels=[f"r{nr}w{nw}"] + ([] if elem is None else ["struct_shape" if elem == "struct" else "array_shape"]))
    if gran is not None:
        res.labels.append("gran" if g >= 2 else "gran1")
    h = Harness(
        lambda: AsyncMemoryBank(shape=make_shape(width, elem), depth=depth, granularity=gran_arg(gran, elem), read_ports=nr, write_ports=nw)
    )
    flags = dict(same_cycle_rw=False, read_after_write=False, partial_write=False, multi_write=False)

    async def tb(ctx):
        ios = h.ios(["read", "write"])
        mem = [0] * depth
        last_changed = []  # rows whose contents changed at the previous edge
        last_write = {}  # write port -> (addr, data, mask) of its previous write
        for cyc, rec in enumerate(case["history"]):
            reqs = {}
            writes = {}
            taken = []
            for j in range(nw):
                a = rec.get(f"write{j}")
                if a is None:
                    continue
                sel, data, mask = a[:3]
                mode = a[3] if len(a) > 3 else 0
                addr = sel % depth
                others = [v for k, v in last_write.items() if k != j]
                if mode == 1 and j in last_write:
                    addr, data, mask = last_write[j]  # the same port stores the very same word in the same row again
                elif mode == 2 and others:
                    addr = others[sel % len(others)][0]  # a row another port wrote last
                elif mode == 3 and j in last_write:
                    addr = last_write[j][0]  # the same row again, other data
                while addr in taken:
                    addr = (addr + 1) % depth
                taken.append(addr)
                if gran is None:
                    mask = 1
                writes[j] = (addr, data, mask)
                last_write[j] = (addr, data, mask)
                args = {"addr": addr, "data": to_data(data, width, elem)}
                if gran is not None:
                    args["mask"] = mask
                reqs[f"write{j}"] = args
            raddr = {}
            for i in range(nr):
                a = rec.get(f"read{i}")
                if a is None:
                    continue
                mode, sel = a
                if mode == 2 and taken:
                    addr = taken[sel % len(taken)]
                elif mode == 3 and last_changed:
                    addr = last_changed[sel % len(last_changed)]
                else:
                    addr = sel % depth
                raddr[i] = addr
                reqs[f"read{i}"] = {"addr": addr}

            results, _ = await step(ctx, ios, reqs)
            res.stats["cycles"] = res.stats.get("cycles", 0) + 1

            for name, _io in ios:
                if (results[name] is not None) != (name in reqs):
                    return res.fail(
                        f"cycle {cyc}: {name} requested={name in reqs} but ran={results[name] is not None} "
                        "(the method has no readiness condition)"
                    )
            newmem = list(mem)
            for j, (addr, data, mask) in writes.items():
                newmem[addr] = apply_mask(newmem[addr], data, mask, width, gran)
                if g >= 2 and mask not in (0, full):
                    flags["partial_write"] = True
            if len(writes) >= 2:
                flags["multi_write"] = True
            for i, addr in raddr.items():
                got = from_data(results[f"read{i}"]["data"], width, elem)
                if got != mem[addr]:
                    return res.fail(
                        f"AsyncMemoryBank(depth={depth}, width={width}, gran={gran}, r{nr}w{nw}) cycle {cyc}: read{i} "
                        f"of row {addr} returned {got}, contents after the writes of earlier cycles are {mem[addr]} "
                        f"(same-cycle writes: {sorted(writes.values())})"
                    )
                if newmem[addr] != mem[addr]:
                    flags["same_cycle_rw"] = True
                if addr in last_changed:
                    flags["read_after_write"] = True
            last_changed = [a for a in range(depth) if newmem[a] != mem[a]]
            mem[:] = newmem

    h.run(tb)
    for k, v in flags.items():
        if v:
            res.labels.append(k)
    res.nontrivial = flags["same_cycle_rw"] and flags["read_after_write"] and (g < 2 or flags["partial_write"])
    return res
