"""C11 - ill-formed designs are rejected, well-formed ones accepted."""

import copy

from hypothesis import strategies as st

from tv.core import Result, short_exc
from tv.designs import analyze, gen_spec, try_build
from tv.props._core_a import shape_labels

ID = "C11"
ENGINE = "A"
RULE = (
    "case = a generated well-formed design (full grammar: relations, run-dependent readiness, nested transactions, "
    "aliases, two modules, both schedulers) plus at most one injected defect of the five listed kinds (double call on "
    "the same path / parallel structures / diamond through two intermediate methods; direct or indirect recursion; "
    "cyclic priorities via LEFT+RIGHT, a 3-cycle, or add_conflict+schedule_before; single_caller method called from two "
    "transactions; nested transaction sharing an exclusive method with its parent or ready-dependent schedule_before "
    "plus conflict) or one of the valid neighbours named in the statement (exclusive method called in different "
    "alternatives of If / Switch / FSM; nonexclusive method with an exclusive-free call tree called repeatedly); "
    "oracle = defect injected => elaboration raises, otherwise elaboration succeeds; shapes the statement is silent "
    "about are only labelled; non-trivial = every case with an injection (distinct (kind, variant) classes are counted "
    "in labels) or a base design with a control structure.  As built the variant list is longer: double calls also at "
    "different depth, through two Method handles of one body and through a nonexclusive method; cyclic priorities also "
    "lifted from methods and as 'one transaction reaches a body and the method defined inside it'; the dependent-"
    "conflict defect with the conflict through a shared method or an explicit add_conflict on either transaction or on "
    "the called methods, declared before or after the dependency, nested or by schedule_before(ready_dependent=True)"
)
ASSUMPTIONS = [
    "well-formedness of the base design is judged by our own analysis (repair pass), independent of the library",
    "any exception type counts as 'raises'",
]
TECHNIQUE = "grammar-based design generation with fault injection; oracle = accept/reject agreement with an independent well-formedness analysis"

DEFECTS = ["double_call", "recursion", "cyclic_priority", "single_caller", "dependent_conflict"]
VALID = ["valid_alternatives", "valid_nonexclusive_repeat", "none", "none"]
SILENT = ["silent_single_caller_one_transaction"]


def budget(tier):
    return dict(examples=60, seconds=45) if tier == "quick" else dict(examples=900, seconds=420)


@st.composite
def strategy(draw, tier="quick"):
    base = draw(gen_spec(allow_rels=True, allow_rdep=True, max_space=1, nvals=1))
    base["vals"] = []
    kind = draw(st.sampled_from(DEFECTS + VALID + SILENT))
    return {"base": base, "inject": kind, "variant": draw(st.integers(0, 11)), "pick": draw(st.integers(0, 50)),
            "v2": draw(st.integers(0, 15))}


def _m(name, mod=0, **kw):
    b = dict(kind="M", name=name, mod=mod, rdy=True, nonex=False, iw=0, ow=0, val=None, single=False, rdep=None, stmts=[])
    b.update(kw)
    return b


def _t(name, stmts, mod=0):
    return dict(kind="T", name=name, mod=mod, rdy=True, stmts=stmts)


def _call(callee, en=False, hops=0, via_methods=False):
    return dict(t="call", callee=callee, en=en, arg=None, hops=hops, via_methods=via_methods)


def _alts(kind, alts):
    if kind == 0:
        return {"t": "if", "alts": alts, "else": len(alts) > 1}
    if kind == 1:
        return {"t": "switch", "w": 2, "pats": [[i] for i in range(len(alts) - 1)], "default": True, "alts": alts}
    return {"t": "fsm", "alts": alts if len(alts) > 1 else alts + [[]]}


def inject(case):
    """returns (spec, expect) with expect in {'raise', 'ok', 'either'} and a label"""
    spec = copy.deepcopy(case["base"])
    kind, v = case["inject"], case["variant"]
    v2 = case.get("v2", 0)
    B = spec["bodies"]
    label = kind
    if kind == "none":
        return spec, "ok", "none"
    if kind == "double_call":
        B.insert(0, _m("x9"))
        if v == 4:
            # chains of different length: directly and through an intermediate method
            B.insert(1, _m("d0", stmts=[_call("x9", hops=case["pick"] & 1)]))
            B.append(_t("tx", [_call("d0"), _alts(v % 3, [[_call("x9")], []])]))
            label += ":different_depth"
        elif v == 8:
            # the two calls go through different Method handles of ONE body (provide / Methods.provide aliases)
            B.append(_t("tx", [_call("x9", hops=1), _call("x9", en=True, hops=case["pick"] % 3, via_methods=bool(case["pick"] & 4))]))
            label += ":through_two_handles"
        elif v % 4 == 0:
            B.append(_t("tx", [_call("x9"), _call("x9", en=True)]))
            label += ":same_path"
        elif v % 4 == 1:
            B.append(_t("tx", [_alts(v % 2, [[_call("x9")]]), _alts((v // 2) % 3, [[_call("x9")], []])]))
            label += ":parallel_structures"
        elif v % 4 == 2:
            B.insert(1, _m("d0", stmts=[_call("x9")], nonex=bool(v & 1)))
            B.insert(2, _m("d1", stmts=[_call("x9")]))
            B.append(_t("tx", [_call("d0"), _alts(v % 3, [[_call("d1")], []])]))
            label += ":diamond"
        else:
            # the exclusive method is reached twice through ONE nonexclusive method that is called twice (in a row,
            # in parallel structures, or through two intermediates): still two calls of x9 on non-exclusive paths
            B.insert(1, _m("q1", nonex=True, stmts=[_call("x9")]))
            if v < 2:
                B.append(_t("tx", [_call("q1"), _call("q1", en=True)]))
            elif v < 4:
                B.append(_t("tx", [_alts(0, [[_call("q1")]]), _alts(v % 3, [[_call("q1")], []])]))
            else:
                B.insert(2, _m("d0", stmts=[_call("q1")], nonex=True))
                B.insert(3, _m("d1", stmts=[_call("q1")]))
                B.append(_t("tx", [_call("d0"), _call("d1")]))
            label += ":via_nonexclusive_method"
        return spec, "raise", label
    if kind == "recursion":
        if v % 3 == 0:
            B.insert(0, _m("r0", stmts=[_call("r0")]))
            label += ":direct"
        elif v % 3 == 1:
            B.insert(0, _m("r0", stmts=[_alts(v % 3, [[_call("r1")], []])]))
            B.insert(1, _m("r1", stmts=[_call("r0", en=True)]))
            label += ":indirect2"
        else:
            B.insert(0, _m("r0", stmts=[_call("r1")], nonex=True))
            B.insert(1, _m("r1", stmts=[_call("r2")]))
            B.insert(2, _m("r2", stmts=[_alts(0, [[], [_call("r0")]])]))
            label += ":indirect3"
        if v & 1:
            B.append(_t("tx", [_call("r0")]))
        return spec, "raise", label
    if kind == "cyclic_priority" and v2 % 4 == 3:
        # a method defined inside another body is scheduled after it (ready-dependent); one transaction reaching both
        # the enclosing body and the inner method would have to run before itself
        inner = _m("y_in")
        if v % 2:
            B.insert(0, _m("y_out", stmts=[{"t": "nt", "body": inner}]))
            B.append(_t("c0", [_call("y_out"), _call("y_in", en=bool(v & 2))]))
            label += ":inner_method_and_enclosing_method_in_one_transaction"
        else:
            B.append(_t("c0", [{"t": "nt", "body": inner}, _call("y_in", en=bool(v & 2))]))
            label += ":transaction_calls_method_defined_inside_it"
        return spec, "raise", label
    if kind == "cyclic_priority":
        B.append(_t("c0", []))
        B.append(_t("c1", []))
        if v % 4 == 0:
            spec["rels"] += [["conf", "c0", "c1", "L"], ["conf", "c0", "c1", "R"]]
            label += ":left+right"
        elif v % 4 == 1:
            B.append(_t("c2", []))
            spec["rels"] += [["conf", "c0", "c1", "L"], ["conf", "c1", "c2", "L"], ["conf", "c2", "c0", "L"]]
            label += ":3cycle"
        elif v % 4 == 2:
            spec["rels"] += [["conf", "c0", "c1", "R"], ["sb", "c0", "c1"]]
            label += ":conflict+schedule_before"
        else:
            B.insert(0, _m("p0"))
            B.insert(1, _m("p1"))
            B[-2]["stmts"] = [_call("p0")]
            B[-1]["stmts"] = [_call("p1")]
            spec["rels"] += [["conf", "p0", "p1", "L"], ["conf", "c1", "c0", "L"]]
            label += ":lifted_from_methods"
        if (v2 // 4) % 2:
            # two transactions of the cycle sit in different alternatives of one top-level If: they can never run
            # together (no conflict to arbitrate), but their declared priorities are cyclic all the same
            spec.setdefault("tops", []).append({"t": "if", "alts": [["c0"], ["c1"]], "else": bool(v2 & 8)})
            label += ":exclusive_leg"
        return spec, "raise", label
    if kind == "single_caller":
        B.insert(0, _m("s0", single=True))
        B.append(_t("s_a", [_call("s0")]))
        B.append(_t("s_b", [_alts(v % 3, [[_call("s0")], []])]))
        return spec, "raise", label + ":two_transactions"
    if kind == "dependent_conflict":
        B.insert(0, _m("x9"))
        B.insert(1, _m("x8"))
        # how the two transactions conflict: through a shared exclusive method, or by an explicit add_conflict declared
        # on the dependee / on the dependent transaction / on the two methods they call, before or after the dependency
        how = ["shared", "conf_ab", "conf_ba", "conf_methods"][v2 % 4]
        prio = "U" if (v2 // 4) % 2 else None  # None: the priority that agrees with the dependency
        second = "x9" if how == "shared" else "x8"
        if v % 2 == 0:
            a, b = "tx", "nx"
            nb = _t("nx", [_call(second)])
            outer = [_call("x9")]
            if v % 4 == 0:
                outer.append({"t": "nt", "body": nb})
            else:
                outer.append(_alts(0, [[{"t": "nt", "body": nb}]]))
            B.append(_t("tx", outer))
            label += ":nested"
            dep = None
        else:
            a, b = "e0", "e1"
            B.append(_t("e0", [_call("x9")]))
            B.append(_t("e1", [_call(second, en=True)]))
            dep = ["sbr", "e0", "e1"]
            label += ":ready_dependent_schedule_before"
        conf = {
            "shared": None,
            "conf_ab": ["conf", a, b, prio or "L"],
            "conf_ba": ["conf", b, a, prio or "R"],
            "conf_methods": ["conf", "x9", "x8", prio or "L"],
        }[how]
        new = [r for r in (dep, conf) if r is not None]
        if (v2 // 8) % 2:
            new.reverse()
        spec["rels"] += new
        return spec, "raise", label + ":" + how
    if kind == "valid_alternatives":
        B.insert(0, _m("x9"))
        k = v % 3
        alts = [[_call("x9")], [_call("x9", en=bool(v & 1))]] + ([[_call("x9")]] if v > 2 else [])
        B.append(_t("tx", [_alts(k, alts)]))
        return spec, "ok", label + ":" + ["if", "switch", "fsm"][k]
    if kind == "valid_nonexclusive_repeat":
        B.insert(0, _m("q0", nonex=True))
        B.insert(1, _m("q1", nonex=True, stmts=[_call("q0")]))
        B.append(_t("tx", [_call("q1"), _call("q0"), _call("q1", en=True)]))
        B.append(_t("ty", [_call("q0")]))
        return spec, "ok", label
    if kind == "silent_single_caller_one_transaction":
        B.insert(0, _m("s0", single=True))
        B.append(_t("s_a", [_alts(0, [[_call("s0")], [_call("s0")]])]))
        return spec, "either", label
    raise AssertionError(kind)


def run_case(case) -> Result:
    spec, expect, label = inject(case)
    an = analyze(spec)
    res = Result(labels=[label, "expect_" + expect] + (shape_labels(an) if expect == "ok" else []))
    built, exc = try_build(spec, an)
    if expect == "raise" and built is not None:
        return res.fail(f"ill-formed design ({label}) was accepted by elaboration")
    if expect == "ok" and built is None:
        return res.fail(f"well-formed design ({label}) was rejected: {short_exc(exc)}")
    if expect == "either":
        res.labels.append(label + (":accepted" if built is not None else ":rejected"))
    res.nontrivial = case["inject"] != "none" or bool(an.structs)
    return res
