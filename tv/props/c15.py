"""C15 - WideFifo behaves as a bounded queue with batched operations."""

from hypothesis import strategies as st

from tv.core import Result
from tv.cyc import Harness, draw_second, second_fold, second_request, step
from tv.queues import capped_history, check_accept

ID = "C15"
ENGINE = "B"
TECHNIQUE = "cycle-accurate driver + python list as reference model"
RULE = (
    "case = (read_width 1..4, write_width 1..4 or omitted (= read_width), rows 1..4 with depth = rows * max(widths), "
    "write_max_count flag, element width 1..8 bits, history of per-cycle request vectors read(count) / peek / "
    "write(count, data[, max_count >= count]) / clear, optionally preceded by write-only cycles; clear is kept rare); "
    "model = python list stepped with the observed accepted set; only the first `count` entries of a read/peek "
    "result are compared; non-trivial = some accepted write or read crossed a row boundary (col + count > col_count) "
    "AND a read returned fewer elements than requested AND more than `depth` elements were written since the last "
    "clear (pointer wrap-around); label nt_unequal counts the non-trivial cases with read_width != write_width"
)
RULE += (
    "  In one case of three a SECOND, independent caller (its own transaction) of one exclusive method (read / write) requests "
    "in some of the cycles in which the first caller does, with the same arguments: at most one of the two may be served "
    "and the outcome must be that of a single request."
)

ASSUMPTIONS = [
    "amaranth.sim.Simulator is the trusted execution model",
    "readiness is judged behaviourally: a requested call that is not accepted counts as 'not ready'",
    "precondition count <= max_count is respected by construction when write_max_count is configured",
    "array entries of a read/peek result beyond the returned count are undefined and never compared",
    "the stored shape is an unsigned integer of 1..8 bits",
]

PROFILES = [
    {"write": 8, "read": 1, "peek": 6},
    {"write": 8, "read": 8, "peek": 8},
    {"write": 2, "read": 7, "peek": 6},
    {"write": 7, "read": 5, "peek": 4, "clear": 1},
    {"write": 5, "read": 7, "peek": 4},
]


# (read_width, write_width): unequal pairs twice, equal pairs once, write_width omitted once per read_width
WIDTH_PAIRS = (
    [[r, w] for r in range(1, 5) for w in range(1, 5) if r != w] * 2
    + [[r, r] for r in range(1, 5)]
    + [[r, None] for r in range(1, 5)]
)


def budget(tier):
    return dict(examples=40, seconds=40) if tier == "quick" else dict(examples=300, seconds=300)


@st.composite
def strategy(draw, tier="quick"):
    rw, ww_opt = draw(st.sampled_from(WIDTH_PAIRS))
    ww = rw if ww_opt is None else ww_opt
    rows = draw(st.integers(1, 4))
    depth = rows * max(rw, ww)
    wmc = draw(st.booleans())
    bits = draw(st.sampled_from([1, 2, 3, 4, 5, 6, 7, 8, 8, 8]))
    wbounds = [ww + 1, ww + 1] + [1 << bits] * ww  # count, max_count selector, data
    # read(count): every value the count field can carry, also values above read_width when read_width + 1 is not a
    # power of two (the statement defines the result as min(count, level, read_width))
    methods = {"read": [1 << rw.bit_length()], "peek": [], "write": wbounds, "clear": []}
    pre = [
        {"read": None, "peek": [], "write": [draw(st.integers(0, b - 1)) for b in wbounds], "clear": None}
        for _ in range(draw(st.integers(0, rows + 1)))
    ]
    hi = 60 if tier == "quick" else 200
    hist = pre + draw(capped_history(methods, 5, hi, caps={"clear": 2}, profiles=PROFILES))
    return {
        "read_width": rw,
        "write_width": ww_opt,
        "rows": rows,
        "write_max_count": wmc,
        "bits": bits,
        "history": hist,
        **dict(zip(("second", "second_mask"), draw_second(draw, ["read", "write"]))),
    }


def run_case(case) -> Result:
    from transactron.lib.fifo import WideFifo

    rw, ww_opt, rows, wmc, bits = (
        case["read_width"],
        case["write_width"],
        case["rows"],
        case["write_max_count"],
        case["bits"],
    )
    ww = rw if ww_opt is None else ww_opt
    cols = max(rw, ww)
    depth = rows * cols
    res = Result(labels=[f"rw{rw}ww{ww}", "wmc" if wmc else "plain"])
    if rw != ww:
        res.labels.append("unequal")
    if ww_opt is None:
        res.labels.append("ww_default")
    if rows == 1:
        res.labels.append("one_row")
    second = case.get("second")
    h = Harness(lambda: WideFifo(bits, depth, rw, ww_opt, write_max_count=wmc), second_callers=(second,) if second else ())
    if second:
        res.labels.append("two_callers_of_" + second)
    names = ["read", "peek", "write", "clear"]
    flags = dict(
        w_cross=False,
        r_cross=False,
        w_exact=False,
        partial_read=False,
        wrap=False,
        refused_partial_space=False,
        refused_by_max_count=False,
        zero_write=False,
        zero_read=False,
        clear_write=False,
        clear_read=False,
        rw_same_cycle=False,
    )

    async def tb(ctx):
        ios = h.ios(names + ([second + "_b"] if second else []))
        q = []
        wpos = rpos = 0  # element positions since the last clear (only used to classify cases)
        for cyc, rec in enumerate(case["history"]):
            reqs = {}
            for n in names:
                a = rec.get(n)
                if a is None:
                    continue
                if n == "read":
                    reqs[n] = {"count": a[0]}
                elif n == "write":
                    cnt = a[0]
                    reqs[n] = {"count": cnt, "data": list(a[2 : 2 + ww])}
                    if wmc:
                        reqs[n]["max_count"] = cnt + a[1] % (ww - cnt + 1)
                else:
                    reqs[n] = {}
            second_request(case, reqs, cyc)
            results, _ = await step(ctx, ios, reqs)
            res.stats["cycles"] = res.stats.get("cycles", 0) + 1
            msg = second_fold(case, reqs, results)
            if msg:
                return res.fail(f"cycle {cyc}: {msg}")
            level = len(q)
            space = depth - level
            info = f"(level {level}/{depth}, rw={rw} ww={ww} wmc={wmc})"
            w_ready = False
            if "write" in reqs:
                need = reqs["write"]["max_count"] if wmc else reqs["write"]["count"]
                w_ready = space != 0 and need <= space
                if not w_ready and space != 0:
                    flags["refused_partial_space"] = True
                    if reqs["write"]["count"] <= space:
                        flags["refused_by_max_count"] = True
            for n, ready in (("read", level > 0), ("peek", level > 0), ("write", w_ready), ("clear", True)):
                if check_accept(res, cyc, n, n in reqs, ready, results[n] is not None, info + f" req={reqs.get(n)}"):
                    return
            r_acc = results["read"] is not None
            w_acc = results["write"] is not None
            c_acc = results["clear"] is not None
            nq = list(q)
            if r_acc:
                want = reqs["read"]["count"]
                k = min(want, level, rw)
                got = results["read"]
                if got["count"] != k:
                    return res.fail(f"cycle {cyc}: read(count={want}) returned count {got['count']} expected {k} {info}")
                if got["data"][:k] != q[:k]:
                    return res.fail(f"cycle {cyc}: read returned {got['data'][:k]} expected {q[:k]} {info}")
                nq = nq[k:]
                if k < want:
                    flags["partial_read"] = True
                if k == 0:
                    flags["zero_read"] = True
                if rpos % cols + k > cols:
                    flags["r_cross"] = True
                rpos += k
            if results["peek"] is not None:
                k = min(level, rw)
                got = results["peek"]
                if got["count"] != k:
                    return res.fail(f"cycle {cyc}: peek returned count {got['count']} expected {k} {info}")
                if got["data"][:k] != q[:k]:
                    return res.fail(f"cycle {cyc}: peek returned {got['data'][:k]} expected {q[:k]} {info}")
            if w_acc:
                cnt = reqs["write"]["count"]
                nq += reqs["write"]["data"][:cnt]
                if cnt == 0:
                    flags["zero_write"] = True
                if wpos % cols + cnt > cols:
                    flags["w_cross"] = True
                if cnt and wpos % cols + cnt == cols:
                    flags["w_exact"] = True
                wpos += cnt
                if wpos > depth and not c_acc:
                    flags["wrap"] = True
            if r_acc and w_acc:
                flags["rw_same_cycle"] = True
            if c_acc:
                if w_acc:
                    flags["clear_write"] = True
                if r_acc:
                    flags["clear_read"] = True
                nq = []
                wpos = rpos = 0
            q = nq

    h.run(tb)
    for k, v in flags.items():
        if v:
            res.labels.append(k)
    res.nontrivial = (flags["w_cross"] or flags["r_cross"]) and flags["partial_read"] and flags["wrap"]
    if res.nontrivial:
        res.labels.insert(2, "nt")
        if rw != ww:
            res.labels.append("nt_unequal")
    return res
