"""C24 - ContentAddressableMemory behaves as a dictionary."""

from hypothesis import strategies as st

from tv.core import Result
from tv.cyc import Harness, draw_second, second_fold, second_request, step
from tv.phases import phased_history

ID = "C24"
ENGINE = "B"
TECHNIQUE = "cycle driver + python dict reference model"
RULE = (
    "case = (entries 1..7 (thorough ..10), address layout of 1-2 fields with 2..4 key bits in total, data layout of "
    "1-2 fields of 1..6 bits, history of per-cycle request vectors push(fresh-key selector, data) / write / read / "
    "remove with key selectors: a present key, the key of this cycle's remove, the key of this cycle's push, any "
    "key); model = python dict, all calls of a cycle see the pre-state; non-trivial = some cycle accepted a push "
    "together with a remove of a present key AND some cycle wrote a key that was removed in the same cycle AND push "
    "was refused at least once because the memory was full"
)
RULE += (
    "  In one case of three a SECOND, independent caller (its own transaction) of one exclusive method (push / write / read / remove) requests "
    "in some of the cycles in which the first caller does, with the same arguments: at most one of the two may be served "
    "and the outcome must be that of a single request."
)

ASSUMPTIONS = [
    "amaranth.sim.Simulator is the trusted execution model",
    "readiness is judged behaviourally: a requested call that is not accepted counts as 'not ready'",
    "push is only requested with a key that is absent before the cycle (pushing a present key is documented as "
    "undefined behaviour); a key removed in a cycle is still present before it, so it is not re-pushed in that cycle",
    "read, write and remove are unconditionally ready and do not conflict with each other or with push",
    "all calls of one cycle observe the state before the cycle; a key written and removed in one cycle is absent "
    "afterwards",
    "the data returned by read when not_found is set is unspecified and not compared",
]

PROFILES = {
    "fill": {"push": 7, "write": 3, "read": 4, "remove": 1},
    "churn": {"push": 6, "write": 5, "read": 5, "remove": 5},
    "drain": {"push": 1, "write": 4, "read": 4, "remove": 6},
}


def budget(tier):
    return dict(examples=100, seconds=40) if tier == "quick" else dict(examples=1000, seconds=420)


@st.composite
def strategy(draw, tier="quick"):
    emax = 7 if tier == "quick" else 10
    entries = draw(st.integers(1, emax))
    akw = draw(st.sampled_from([[2], [3], [4], [1, 1], [1, 2], [2, 1], [2, 2], [1, 3], [3, 1]]))
    dw = draw(st.lists(st.integers(1, 6), min_size=1, max_size=2))
    nkeys = 1 << sum(akw)
    ndata = 1 << sum(dw)
    hi = 60 if tier == "quick" else 180
    # raw integers: [key selector mode, key selector, data]
    methods = {"push": [nkeys, ndata], "write": [4, nkeys, ndata], "read": [4, nkeys], "remove": [4, nkeys]}
    hist = draw(phased_history(methods, PROFILES, 10, hi, first=("fill", "churn", "free")))
    second, mask = draw_second(draw, ["push", "write", "read", "remove"])
    return {"entries": entries, "addr_widths": akw, "data_widths": dw, "history": hist, "second": second,
            "second_mask": mask}


def _split(value, widths, prefix):
    out = {}
    for i, w in enumerate(widths):
        out[f"{prefix}{i}"] = value & ((1 << w) - 1)
        value >>= w
    return out


def run_case(case) -> Result:
    from transactron.lib.storage import ContentAddressableMemory

    E, akw, dw = case["entries"], case["addr_widths"], case["data_widths"]
    nkeys = 1 << sum(akw)
    alayout = [(f"a{i}", w) for i, w in enumerate(akw)]
    dlayout = [(f"d{i}", w) for i, w in enumerate(dw)]
    res = Result(labels=[f"entries{E}", f"keys{nkeys}"])
    second = case.get("second")
    h = Harness(lambda: ContentAddressableMemory(alayout, dlayout, E), second_callers=(second,) if second else ())
    if second:
        res.labels.append("two_callers_of_" + second)
    flags = dict(
        push_with_remove=False, write_removed_same_cycle=False, push_full_refused=False, full=False, read_hit=False,
        read_miss=False, read_removed_same_cycle=False, read_pushed_same_cycle=False, write_hit=False, write_miss=False,
        write_read_same_key=False, remove_miss=False, reinsert_removed_key=False, read_after_remove=False,
        write_after_remove=False,
    )

    async def tb(ctx):
        ios = h.ios(["push", "write", "read", "remove"] + ([second + "_b"] if second else []))
        d = {}  # key -> data (ints)
        removed = set()  # keys that were removed and are absent now
        for cyc, rec in enumerate(case["history"]):
            reqs, keys = {}, {}
            present = sorted(d)
            if rec.get("push") is not None:
                fresh = [k for k in range(nkeys) if k not in d]
                if fresh:
                    sel, data = rec["push"]
                    keys["push"] = fresh[sel % len(fresh)]
                    reqs["push"] = {"addr": _split(keys["push"], akw, "a"), "data": _split(data, dw, "d")}
                    reqs["push"]["_data"] = data

            def pick(mode, sel):
                # 0: a present key, 1: the key removed in this cycle, 2: the key pushed in this cycle, 3: any key
                if mode == 1 and "remove" in keys:
                    return keys["remove"]
                if mode == 2 and "push" in keys:
                    return keys["push"]
                if mode != 3 and present:
                    return present[sel % len(present)]
                return sel % nkeys

            if rec.get("remove") is not None:
                mode, sel = rec["remove"]
                keys["remove"] = pick(mode if mode != 1 else 0, sel)
                reqs["remove"] = {"addr": _split(keys["remove"], akw, "a")}
            if rec.get("write") is not None:
                mode, sel, data = rec["write"]
                keys["write"] = pick(mode, sel)
                reqs["write"] = {"addr": _split(keys["write"], akw, "a"), "data": _split(data, dw, "d"), "_data": data}
            if rec.get("read") is not None:
                mode, sel = rec["read"]
                if mode == 1 and "write" in keys and sel % 2:
                    keys["read"] = keys["write"]
                else:
                    keys["read"] = pick(mode, sel)
                reqs["read"] = {"addr": _split(keys["read"], akw, "a")}
            call = {nm: {k: v for k, v in a.items() if k != "_data"} for nm, a in reqs.items()}
            second_request(case, call, cyc)
            results, _ = await step(ctx, ios, call)
            res.stats["cycles"] = res.stats.get("cycles", 0) + 1
            msg = second_fold(case, call, results)
            if msg:
                return res.fail(f"cycle {cyc}: {msg}")
            where = f"cycle {cyc} (contents {d}, entries {E})"
            for nm, r in results.items():
                if r is not None and nm not in reqs:
                    return res.fail(f"{where}: {nm} ran without being requested")
            # admissibility
            if "push" in reqs:
                ready = len(d) < E
                if (results["push"] is not None) != ready:
                    return res.fail(
                        f"{where}: push(key={keys['push']}) requested, accepted={results['push'] is not None}, "
                        f"expected ready={ready}"
                    )
                if not ready:
                    flags["push_full_refused"] = True
            for nm in ("write", "read", "remove"):
                if nm in reqs and results[nm] is None:
                    return res.fail(f"{where}: {nm}(key={keys[nm]}) requested but not accepted")
            nd = dict(d)
            rm_hit = "remove" in reqs and keys["remove"] in d
            if "read" in reqs:
                k, r = keys["read"], results["read"]
                if r["not_found"] != (k not in d):
                    return res.fail(f"{where}: read(key={k}) returned not_found={r['not_found']}")
                if k in d:
                    if r["data"] != _split(d[k], dw, "d"):
                        return res.fail(f"{where}: read(key={k}) returned {r['data']}, stored {_split(d[k], dw, 'd')}")
                    flags["read_hit"] = True
                    if rm_hit and keys["remove"] == k:
                        flags["read_removed_same_cycle"] = True
                else:
                    flags["read_miss"] = True
                    if k in removed:
                        flags["read_after_remove"] = True
                    if results["push"] is not None and keys["push"] == k:
                        flags["read_pushed_same_cycle"] = True
                if "write" in reqs and keys["write"] == k and k in d:
                    flags["write_read_same_key"] = True
            if "write" in reqs:
                k, r = keys["write"], results["write"]
                if r["not_found"] != (k not in d):
                    return res.fail(f"{where}: write(key={k}) returned not_found={r['not_found']}")
                if k in d:
                    nd[k] = reqs["write"]["_data"]
                    flags["write_hit"] = True
                    if rm_hit and keys["remove"] == k:
                        flags["write_removed_same_cycle"] = True
                else:
                    flags["write_miss"] = True
                    if k in removed:
                        flags["write_after_remove"] = True
            if "remove" in reqs:
                if rm_hit:
                    nd.pop(keys["remove"])
                    removed.add(keys["remove"])
                    if results["push"] is not None:
                        flags["push_with_remove"] = True
                else:
                    flags["remove_miss"] = True
            if results["push"] is not None:
                k = keys["push"]
                nd[k] = reqs["push"]["_data"]
                if k in removed:
                    flags["reinsert_removed_key"] = True
                    removed.discard(k)
            if len(nd) == E:
                flags["full"] = True
            d = nd
        # final sweep: every key is read back once
        for k in range(nkeys):
            results, _ = await step(ctx, ios, {"read": {"addr": _split(k, akw, "a")}})
            r = results["read"]
            if r is None:
                return res.fail(f"final sweep: read(key={k}) not accepted")
            if r["not_found"] != (k not in d) or (k in d and r["data"] != _split(d[k], dw, "d")):
                return res.fail(f"final sweep: read(key={k}) returned {r}, model contents {d}")

    h.run(tb)
    for k, v in flags.items():
        if v:
            res.labels.append(k)
    res.nontrivial = flags["push_with_remove"] and flags["write_removed_same_cycle"] and flags["push_full_refused"]
    return res
