"""C19 - Serializer and ArgumentsToResultsZipper keep requests and responses matched."""

from hypothesis import strategies as st

from tv.core import Result
from tv.cyc import Harness, history, step

ID = "C19"
ENGINE = "B"
TECHNIQUE = "cycle driver + in-order server model (Serializer) / index pairing model (Zipper)"
RULE = (
    "case = Serializer(ports 1..4, depth 1..5, data of 1-2 fields of 1..8 bits, server capacity depth-3..depth+2, "
    "history of 10..60 (thorough 200) per-cycle client request vectors in_i(data)/out_i plus server inputs: request"
    " stall, response stall, latency of a request accepted this cycle) or ArgumentsToResultsZipper(args/results "
    "layouts, history of write_args/write_results/read/peek_arg requests); the server is two Adapter mocks driven "
    "by an in-order model (queue of accepted requests, response = affine function of the request, ready only after "
    "its latency and when not stalled); non-trivial (Serializer) = >= 2 clients have requests outstanding at the "
    "same time AND a response was held back (server stall or head client not asking) while another client asked for"
    " one, or a request was refused because `depth` were pending; non-trivial (Zipper) = >= 3 pairs read, a read "
    "refused for a missing result or argument, and a same-cycle write_results+read"
)
ASSUMPTIONS = [
    "amaranth.sim.Simulator is the trusted execution model",
    "the server answers in order (precondition stated in the Serializer docstring); `clear` is not exercised",
    "readiness is judged behaviourally: a requested call that is not accepted counts as 'not ready'",
    "a request accepted while exactly `depth` are pending is tolerated only if a response is delivered in the same "
    "cycle (the statement is silent there); it is counted in labels",
]


def budget(tier):
    return dict(examples=60, seconds=30) if tier == "quick" else dict(examples=400, seconds=300)


def _lay(prefix, widths):
    return [(f"{prefix}{i}", w) for i, w in enumerate(widths)]


def _val(prefix, raws, widths):
    return {f"{prefix}{i}": r & ((1 << w) - 1) for i, (r, w) in enumerate(zip(raws, widths))}


_widths = st.lists(st.integers(1, 8), min_size=1, max_size=2)


@st.composite
def _ser_history(draw, ports, nq, lo, hi):
    """Cycle records {"in": [raw request | None per client], "out": [0/1 per client], "rs": server refuses requests,
    "ps": server holds its response back, "lat": latency of a request accepted in this cycle}; segments have their
    own probabilities so that bursts, drains and stalls all occur."""
    nseg = draw(st.integers(1, 4))
    total = draw(st.integers(lo, hi))
    per = max(1, total // nseg)
    out = []
    for s in range(nseg):
        w_in = [draw(st.integers(0, 6)) for _ in range(ports)]
        w_out = [draw(st.integers(2, 8)) for _ in range(ports)]
        w_rs = draw(st.integers(0, 3))
        w_ps = draw(st.integers(0, 6))
        max_lat = draw(st.integers(0, 3))
        ncyc = per if s < nseg - 1 else max(1, total - per * (nseg - 1))
        for _ in range(ncyc):
            ins = []
            for w in w_in:
                x = draw(st.integers(0, (8 << (8 * nq)) - 1))  # low 3 bits: coin; then 8 raw bits per field
                ins.append([(x >> (3 + 8 * k)) & 255 for k in range(nq)] if (x & 7) < w else None)
            y = draw(st.integers(0, (1 << (3 * ports + 8)) - 1))  # coins of the out requests, stalls and latency
            outs = [int(((y >> (3 * i)) & 7) < w) for i, w in enumerate(w_out)]
            z = y >> (3 * ports)
            out.append(
                {
                    "in": ins,
                    "out": outs,
                    "rs": int((z & 7) < w_rs),
                    "ps": int(((z >> 3) & 7) < w_ps),
                    "lat": ((z >> 6) & 3) % (max_lat + 1),
                }
            )
    return out


@st.composite
def strategy(draw, tier="quick"):
    kind = draw(st.sampled_from(["Serializer", "Serializer", "Zipper"]))
    hi = 60 if tier == "quick" else 200
    if kind == "Serializer":
        ports = draw(st.sampled_from([2, 3, 4, 1, 2, 3, 4]))
        depth = draw(st.sampled_from([2, 3, 1, 4, 5, 2, 3]))
        qw = draw(_widths)
        aw = draw(_widths)
        cfg = dict(
            ports=ports,
            depth=depth,
            qw=qw,
            aw=aw,
            cap=max(1, depth + draw(st.sampled_from([1, 0, 2, -1, -3]))),
            mul=draw(st.integers(0, 3)) * 2 + 1,
            add=draw(st.integers(0, 255)),
        )
        return {"kind": kind, "cfg": cfg, "history": draw(_ser_history(ports, len(qw), 10, hi))}
    argw = draw(_widths)
    resw = draw(_widths)
    methods = {
        "write_args": [256] * len(argw),
        "write_results": [256] * len(resw),
        "read": [],
        "peek_arg": [],
    }
    return {"kind": kind, "cfg": dict(argw=argw, resw=resw), "history": draw(history(methods, 5, hi))}


def run_case(case) -> Result:
    if case["kind"] == "Serializer":
        return _run_serializer(case)
    return _run_zipper(case)


# ------------------------------------------------------------------------------------------------ Serializer


def _make_serializer(cfg):
    from amaranth import Elaboratable, Module
    from transactron.lib import Adapter, AdapterTrans, Serializer
    from transactron.testing import TestbenchIO

    class Circuit(Elaboratable):
        def __init__(self):
            self.req = TestbenchIO(Adapter(i=_lay("q", cfg["qw"])))
            self.resp = TestbenchIO(Adapter(o=_lay("a", cfg["aw"])))
            self.ser = Serializer(
                port_count=cfg["ports"],
                serialized_req_method=self.req.adapter.iface,
                serialized_resp_method=self.resp.adapter.iface,
                depth=cfg["depth"],
            )
            self.ins = [TestbenchIO(AdapterTrans.create(x)) for x in self.ser.serialize_in]
            self.outs = [TestbenchIO(AdapterTrans.create(x)) for x in self.ser.serialize_out]

        def elaborate(self, platform):
            m = Module()
            m.submodules.ser = self.ser
            m.submodules.req = self.req
            m.submodules.resp = self.resp
            for i, x in enumerate(self.ins):
                m.submodules[f"in{i}"] = x
            for i, x in enumerate(self.outs):
                m.submodules[f"out{i}"] = x
            return m

    return Circuit()


def _run_serializer(case) -> Result:
    cfg = case["cfg"]
    ports, depth, qw, aw, cap = cfg["ports"], cfg["depth"], cfg["qw"], cfg["aw"], cfg["cap"]
    res = Result(labels=["Serializer", f"Serializer:ports={ports}", f"Serializer:depth={depth}"])
    h = Harness(lambda: _make_serializer(cfg), test_circuit=False)
    flags: dict[str, bool] = {}

    def answer(q):
        # the server's function: affine in the first request field, per answer field
        return {f"a{j}": (q["q0"] * cfg["mul"] + cfg["add"] + j) & ((1 << w) - 1) for j, w in enumerate(aw)}

    async def tb(ctx):
        ios = h.ios(["ins", "outs", "req", "resp"])
        pending = []  # model of the outstanding requests: (client, request data, cycle from which the answer is ready)
        sent = [[] for _ in range(ports)]
        got = [[] for _ in range(ports)]
        for cyc, rec in enumerate(case["history"]):
            reqs = {}
            want_in, want_out = {}, set()
            for i in range(ports):
                a = rec["in"][i]
                if a is not None:
                    want_in[i] = _val("q", a, qw)
                    reqs[f"ins{i}"] = want_in[i]
                if rec["out"][i]:
                    want_out.add(i)
                    reqs[f"outs{i}"] = {}
            # in-order server: accepts while it has room and is not stalled; answers the oldest request once its
            # latency has passed and it is not stalled
            req_rdy = len(pending) < cap and not rec["rs"]
            head_ready = bool(pending) and pending[0][2] <= cyc
            resp_rdy = head_ready and not rec["ps"]
            if req_rdy:
                reqs["req"] = {}
            if resp_rdy:
                reqs["resp"] = answer(pending[0][1])
            results, _ = await step(ctx, ios, reqs)
            res.stats["cycles"] = res.stats.get("cycles", 0) + 1
            acc_in = [i for i in range(ports) if results[f"ins{i}"] is not None]
            acc_out = [i for i in range(ports) if results[f"outs{i}"] is not None]
            srv_req, srv_resp = results["req"], results["resp"]
            n_pre = len(pending)
            st_ = f"(pending clients {[p[0] for p in pending]}, depth {depth})"

            # ---- admissibility
            for i in acc_in:
                if i not in want_in:
                    return res.fail(f"cycle {cyc}: serialize_in[{i}] ran without being requested")
            for i in acc_out:
                if i not in want_out:
                    return res.fail(f"cycle {cyc}: serialize_out[{i}] ran without being requested")
            if len(acc_in) > 1:
                return res.fail(f"cycle {cyc}: requests of clients {acc_in} accepted in one cycle - not serialized")
            if len(acc_out) > 1:
                return res.fail(f"cycle {cyc}: one response delivered to clients {acc_out}")
            if (srv_req is not None) != bool(acc_in):
                return res.fail(f"cycle {cyc}: server request called={srv_req is not None}, accepted clients {acc_in}")
            if (srv_resp is not None) != bool(acc_out):
                return res.fail(
                    f"cycle {cyc}: server response taken={srv_resp is not None}, delivered to clients {acc_out} {st_}"
                )
            if srv_req is not None and not req_rdy:
                return res.fail(f"cycle {cyc}: server request method called while it is not ready")
            if srv_resp is not None and not resp_rdy:
                return res.fail(f"cycle {cyc}: server response method called while it is not ready")
            # ---- responses
            if acc_out:
                i = acc_out[0]
                if not pending:
                    return res.fail(f"cycle {cyc}: client {i} got a response while nothing is outstanding")
                if pending[0][0] != i:
                    return res.fail(f"cycle {cyc}: client {i} got the response owed to client {pending[0][0]} {st_}")
                exp = answer(pending[0][1])
                if results[f"outs{i}"] != exp:
                    return res.fail(f"cycle {cyc}: client {i} received {results[f'outs{i}']}, server answered {exp}")
                got[i].append(results[f"outs{i}"])
            elif pending and resp_rdy and pending[0][0] in want_out:
                return res.fail(
                    f"cycle {cyc}: response for client {pending[0][0]} available and asked for but not delivered {st_}"
                )
            # ---- requests
            if acc_in:
                i = acc_in[0]
                if n_pre > depth or (n_pre == depth and not acc_out):
                    return res.fail(f"cycle {cyc}: request of client {i} accepted with {n_pre} pending {st_}")
                if n_pre == depth:
                    flags["accepted_at_depth_with_response"] = True
                if srv_req != want_in[i]:
                    return res.fail(f"cycle {cyc}: server received {srv_req}, client {i} sent {want_in[i]}")
            elif want_in and req_rdy and n_pre < depth:
                return res.fail(
                    f"cycle {cyc}: clients {sorted(want_in)} request, server ready, only {n_pre} pending "
                    f"but no request accepted {st_}"
                )
            # ---- classes
            if want_in and req_rdy and n_pre >= depth and not acc_in:
                flags["refused_at_depth"] = True
            if want_in and not req_rdy:
                flags["refused_server_busy"] = True
            if len(want_in) > 1 and acc_in:
                flags["request_arbitration"] = True
            if pending and any(c in want_out for c in range(ports) if c != pending[0][0]):
                if not acc_out:
                    flags["response_held_while_other_asks"] = True
                if not resp_rdy and head_ready:
                    flags["server_stall"] = True
            if pending and not head_ready and want_out:
                flags["latency_wait"] = True
            # ---- model step (from the observed accepted set)
            if acc_out:
                pending.pop(0)
            if acc_in:
                i = acc_in[0]
                lat = rec["lat"]
                pending.append((i, want_in[i], cyc + 1 + lat))
                sent[i].append(want_in[i])
            if len({p[0] for p in pending}) >= 2:
                flags["interleaved_outstanding"] = True
            if len(pending) == depth:
                flags["depth_reached"] = True
        # ---- per-client sequences (follows from the per-cycle rules; kept as an independent cross-check)
        for i in range(ports):
            exp = [answer(q) for q in sent[i]][: len(got[i])]
            if got[i] != exp:
                return res.fail(f"client {i}: responses {got[i]} are not the answers to its requests {exp}")
        res.stats["responses"] = sum(len(g) for g in got)

    h.run(tb)
    for k in sorted(flags):
        res.labels.append(f"Serializer:{k}")
    res.nontrivial = bool(
        flags.get("interleaved_outstanding")
        and (flags.get("response_held_while_other_asks") or flags.get("refused_at_depth"))
    )
    return res


# ------------------------------------------------------------------------------------------------ Zipper


def _run_zipper(case) -> Result:
    from transactron.lib.reqres import ArgumentsToResultsZipper

    cfg = case["cfg"]
    argw, resw = cfg["argw"], cfg["resw"]
    res = Result(labels=["Zipper"])
    h = Harness(lambda: ArgumentsToResultsZipper(_lay("x", argw), _lay("r", resw)))
    flags: dict[str, bool] = {}

    async def tb(ctx):
        ios = h.ios(["write_args", "write_results", "read", "peek_arg"])
        args, ress = [], []  # every accepted write, in order
        nread = 0
        for cyc, rec in enumerate(case["history"]):
            reqs = {}
            if rec.get("write_args") is not None:
                reqs["write_args"] = _val("x", rec["write_args"], argw)
            if rec.get("write_results") is not None:
                reqs["write_results"] = _val("r", rec["write_results"], resw)
            if rec.get("read") is not None:
                reqs["read"] = {}
            if rec.get("peek_arg") is not None:
                reqs["peek_arg"] = {}
            results, _ = await step(ctx, ios, reqs)
            res.stats["cycles"] = res.stats.get("cycles", 0) + 1
            for n in ("write_args", "write_results", "read", "peek_arg"):
                if results[n] is not None and n not in reqs:
                    return res.fail(f"cycle {cyc}: {n} ran without being requested")
            n_args_pre, n_res_pre = len(args), len(ress)
            if results["write_args"] is not None:
                args.append(reqs["write_args"])
            if results["write_results"] is not None:
                ress.append(reqs["write_results"])
            if results["peek_arg"] is not None:
                if nread >= len(args):
                    return res.fail(
                        f"cycle {cyc}: peek_arg returned {results['peek_arg']} but argument #{nread} was "
                        "never written"
                    )
                if results["peek_arg"] != args[nread]:
                    return res.fail(
                        f"cycle {cyc}: peek_arg returned {results['peek_arg']}, oldest unread argument is "
                        f"#{nread} = {args[nread]}"
                    )
            r = results["read"]
            if r is not None:
                if nread >= len(args) or nread >= len(ress):
                    return res.fail(
                        f"cycle {cyc}: read #{nread} succeeded although only {len(args)} arguments / {len(ress)} "
                        f"results were written; returned {r}"
                    )
                exp = {"args": args[nread], "results": ress[nread]}
                if r != exp:
                    return res.fail(f"cycle {cyc}: read #{nread} returned {r}, expected the #{nread} pair {exp}")
                if nread >= n_res_pre:
                    flags["same_cycle_result"] = True
                if nread >= n_args_pre:
                    flags["same_cycle_arg"] = True
                nread += 1
            elif "read" in reqs:
                if nread < n_args_pre and nread < n_res_pre:
                    return res.fail(
                        f"cycle {cyc}: read #{nread} requested, argument and result #{nread} were written in earlier "
                        "cycles, but the read was refused"
                    )
                if nread >= n_res_pre and nread < n_args_pre:
                    flags["read_waits_for_result"] = True
                if nread >= n_args_pre and nread < n_res_pre:
                    flags["read_waits_for_arg"] = True
            if "write_args" in reqs and results["write_args"] is None:
                flags["write_args_refused"] = True
            if "write_results" in reqs and results["write_results"] is None:
                flags["write_results_refused"] = True
            if len(ress) > len(args):
                flags["result_before_arg"] = True
        res.stats["pairs"] = nread
        if nread >= 3:
            flags["three_pairs"] = True

    h.run(tb)
    for k in sorted(flags):
        res.labels.append(f"Zipper:{k}")
    res.nontrivial = bool(
        flags.get("three_pairs")
        and (flags.get("read_waits_for_result") or flags.get("read_waits_for_arg"))
        and flags.get("same_cycle_result")
    )
    return res
