"""C27 - CircularAllocator hands out identifiers in ring order."""

from hypothesis import strategies as st

from tv.core import Result
from tv.cyc import Harness, draw_second, second_fold, second_request, step
from tv.phases import phased_history

ID = "C27"
ENGINE = "B"
TECHNIQUE = "cycle driver + ring-counter reference model"
RULE = (
    "case = (entries 1..9 (thorough ..12), max_alloc 1..entries, max_free 1..entries, with_validate_arguments True (3 of "
    "4) | False, history of per-cycle request vectors alloc(count 0..max_alloc) / free(count 0..max_free) / clear, "
    "counts drawn over the whole argument range so that overflowing / underflowing calls are attempted (without "
    "validation only valid counts are issued while the method can be ready); model = (start, n) ring "
    "counters stepped with the observed accepted set, results and the public start_idx/end_idx/allocated signals "
    "compared every cycle; non-trivial = an accepted alloc or free with count > 1 whose identifiers wrap from "
    "entries-1 to 0 AND an overflowing alloc or underflowing free was attempted (and refused)"
)
RULE += (
    "  In one case of three a SECOND, independent caller (its own transaction) of one exclusive method (alloc / free) requests "
    "in some of the cycles in which the first caller does, with the same arguments: at most one of the two may be served "
    "and the outcome must be that of a single request."
)

ASSUMPTIONS = [
    "amaranth.sim.Simulator is the trusted execution model",
    "count is drawn from range(max+1), the method's layout; with_validate_arguments=False is only driven with counts "
    "that fit (the docstring allows an illegal state otherwise), so 'never accepted' is then checked for readiness only",
    "readiness is judged behaviourally: a requested call that is not accepted counts as 'not ready / invalid'",
    "alloc and free are documented 'ready only if' ids are free / allocated; since alloc, free and clear do not "
    "conflict, a requested call with valid count in a ready state is expected to be accepted (accepted <=> valid)",
    "entries of the idents arrays at positions >= count are not compared",
    "a clear accepted in a cycle wins over alloc/free of that cycle ('restores the initial state')",
]


PROFILES = {
    "fill": {"alloc": 7, "free": 2},
    "churn": {"alloc": 7, "free": 7, "clear": 2},
    "drain": {"alloc": 2, "free": 7, "clear": 1},
}


def budget(tier):
    return dict(examples=120, seconds=40) if tier == "quick" else dict(examples=1500, seconds=420)


@st.composite
def strategy(draw, tier="quick"):
    emax = 9 if tier == "quick" else 12
    # every size occurs; non-powers of two (the mod_add table path) and sizes that can wrap with count > 1 get extra weight
    entries = draw(st.one_of(st.integers(1, emax), st.sampled_from([e for e in range(3, emax + 1) if e & (e - 1)])))
    # bias towards "large" per-cycle counts: they are what makes wrap-around with count > 1 frequent
    ma = draw(st.one_of(st.integers(1, entries), st.just(entries), st.just(min(entries, 2))))
    mf = draw(st.one_of(st.integers(1, entries), st.just(entries), st.just(min(entries, 2))))
    hi = 50 if tier == "quick" else 180
    hist = draw(phased_history({"alloc": [ma + 1, 4], "free": [mf + 1, 4], "clear": [8]}, PROFILES, 8, hi))
    validate = draw(st.sampled_from([True, True, True, False]))
    second, mask = draw_second(draw, ["alloc", "free"])
    return {"entries": entries, "max_alloc": ma, "max_free": mf, "validate": validate, "history": hist,
            "second": second, "second_mask": mask}


def _count(raw, bias, mx, room, validate):
    """Resolve the raw count.  bias 0: as drawn (may be invalid); 1: the largest valid count (fills / drains exactly);
    2,3: as drawn folded into the valid range when there is room (keeps histories moving).  Without argument
    validation invalid counts are the caller's responsibility, so they are always folded (room == 0 means the method
    is not ready at all, any count is refused)."""
    if bias == 1 and room > 0:
        return min(mx, room)
    if (bias >= 2 or not validate) and room > 0:
        return raw % (min(mx, room) + 1)
    return raw


def run_case(case) -> Result:
    from transactron.lib.allocators import CircularAllocator

    E, ma, mf, validate = case["entries"], case["max_alloc"], case["max_free"], case.get("validate", True)
    res = Result(labels=[f"entries{E}", "pow2" if E & (E - 1) == 0 else "nonpow2", "validate" if validate else "novalidate"])
    second = case.get("second")
    h = Harness(lambda: CircularAllocator(E, ma, mf, with_validate_arguments=validate), second_callers=(second,) if second else ())
    if second:
        res.labels.append("two_callers_of_" + second)
    flags = dict(
        wrap_multi=False, wrap_single=False, overflow_refused=False, underflow_refused=False, full=False,
        alloc_free_same_cycle=False, clear_with_alloc=False, zero_count=False,
    )

    async def tb(ctx):
        ios = h.ios(["alloc", "free", "clear"] + ([second + "_b"] if second else []))
        dut = h.dut
        sigs = [dut.start_idx, dut.end_idx, dut.allocated]
        s, n = 0, 0
        for cyc, rec in enumerate(case["history"]):
            e = (s + n) % E
            reqs = {}
            if rec.get("alloc") is not None:
                raw, bias = rec["alloc"]
                reqs["alloc"] = {"count": _count(raw, bias, ma, E - n, validate)}
            if rec.get("free") is not None:
                raw, bias = rec["free"]
                reqs["free"] = {"count": _count(raw, bias, mf, n, validate)}
            # clear is drawn with 1/8 of its request weight so that histories are not reset all the time
            if rec.get("clear") is not None and rec["clear"][0] == 0:
                reqs["clear"] = {}
            second_request(case, reqs, cyc)
            results, (v_start, v_end, v_n) = await step(ctx, ios, reqs, sigs)
            res.stats["cycles"] = res.stats.get("cycles", 0) + 1
            msg = second_fold(case, reqs, results)
            if msg:
                return res.fail(f"cycle {cyc}: {msg}")
            where = f"cycle {cyc} (start={s} allocated={n} entries={E})"
            # public state signals (sampled at the clock edge = state before this cycle's calls take effect)
            if v_n != n:
                return res.fail(f"{where}: allocated signal is {v_n}")
            if n > 0 and v_start != s:
                return res.fail(f"{where}: start_idx is {v_start}, oldest allocated identifier is {s}")
            if v_end != e:
                return res.fail(f"{where}: end_idx is {v_end}, expected {e}")
            a, f, c = results["alloc"], results["free"], results["clear"]
            for nm in ("alloc", "free", "clear"):
                if results[nm] is not None and nm not in reqs:
                    return res.fail(f"{where}: {nm} ran without being requested")
            if "clear" in reqs and c is None:
                return res.fail(f"{where}: clear requested but not accepted")
            if "alloc" in reqs:
                cnt = reqs["alloc"]["count"]
                ok = n != E and n + cnt <= E
                if a is not None and not ok:
                    return res.fail(f"{where}: alloc(count={cnt}) accepted although it overflows / allocator is full")
                if a is None and ok:
                    return res.fail(f"{where}: alloc(count={cnt}) is valid but was not accepted")
                if not ok and n + cnt > E:
                    flags["overflow_refused"] = True
                if cnt == 0 and a is not None:
                    flags["zero_count"] = True
            if "free" in reqs:
                cnt = reqs["free"]["count"]
                ok = n != 0 and cnt <= n
                if f is not None and not ok:
                    return res.fail(f"{where}: free(count={cnt}) accepted although it underflows / allocator is empty")
                if f is None and ok:
                    return res.fail(f"{where}: free(count={cnt}) is valid but was not accepted")
                if not ok and cnt > n:
                    flags["underflow_refused"] = True
            nn, ns = n, s
            if a is not None:
                cnt = reqs["alloc"]["count"]
                exp = [(e + i) % E for i in range(cnt)]
                if a["idents"][:cnt] != exp:
                    return res.fail(f"{where}: alloc(count={cnt}) returned idents {a['idents']}, expected prefix {exp}")
                if a["new_end_idx"] != (e + cnt) % E:
                    return res.fail(f"{where}: alloc(count={cnt}) new_end_idx={a['new_end_idx']}")
                if cnt and e + cnt > E:
                    flags["wrap_multi" if cnt > 1 else "wrap_single"] = True
                nn += cnt
            if f is not None:
                cnt = reqs["free"]["count"]
                exp = [(s + i) % E for i in range(cnt)]
                if f["idents"][:cnt] != exp:
                    return res.fail(f"{where}: free(count={cnt}) returned idents {f['idents']}, expected prefix {exp}")
                if f["new_start_idx"] != (s + cnt) % E:
                    return res.fail(f"{where}: free(count={cnt}) new_start_idx={f['new_start_idx']}")
                if cnt and s + cnt > E:
                    flags["wrap_multi" if cnt > 1 else "wrap_single"] = True
                nn -= cnt
                ns = (s + cnt) % E
            if a is not None and f is not None and reqs["alloc"]["count"] and reqs["free"]["count"]:
                flags["alloc_free_same_cycle"] = True
            if c is not None:
                if a is not None and reqs["alloc"]["count"]:
                    flags["clear_with_alloc"] = True
                nn, ns = 0, 0
            if nn == E:
                flags["full"] = True
            s, n = ns, nn
        # one more edge to look at the final state
        _, (v_start, v_end, v_n) = await step(ctx, ios, {}, sigs)
        if v_n != n or v_end != (s + n) % E or (n > 0 and v_start != s):
            return res.fail(
                f"final state: start_idx={v_start} end_idx={v_end} allocated={v_n}, model start={s} allocated={n}"
            )

    h.run(tb)
    for k, v in flags.items():
        if v:
            res.labels.append(k)
    res.nontrivial = flags["wrap_multi"] and (flags["overflow_refused"] or flags["underflow_refused"])
    return res
