"""C23 - multiport memories are equivalent to an ideal amaranth synchronous memory (differential check)."""

from hypothesis import strategies as st

from tv.core import Result
from tv.memx import ILVT_KINDS, divisors, granules, known_keys, mem_class, narrow, pick_key

ID = "C23"
ENGINE = "B"
TECHNIQUE = "differential simulation against amaranth.lib.memory.Memory with identical ports and port history"
RULE = (
    "case = (kind MultiRead|XOR|XORILVT|OneHotILVT, depth 2..17, width 1..8 (incl. width < address bits), 1-3 read "
    "ports, 1-3 write ports (1 for MultiRead), init empty|random (possibly shorter than depth), per-read-port "
    "transparency mask, granularity None|divisor of width where the constructor accepts it, port history: per cycle "
    "per write port (mask, row selector, data) with pairwise distinct rows among enabled ports, per read port (en, "
    "mode, selector) where the mode aims the read at a row written this cycle / 1 / 2 cycles earlier / an alias row); "
    "every read port's data is compared with the reference memory after every clock edge; non-trivial = the history "
    "contains an enabled read of a row written 1 cycle earlier AND one written 2 cycles earlier AND (a same-cycle "
    "read/write of one row OR a read with en low in the cycle after a write to the row it holds)"
)
ASSUMPTIONS = [
    "amaranth.sim.Simulator and amaranth.lib.memory.Memory (incl. transparent_for, read en, granularity) are the "
    "trusted reference",
    "no two enabled write ports address the same row in one cycle; a disabled write port may carry any address",
    "MultiportXORMemory is never given a granularity (its write_port documents and rejects it)",
    "mismatches are attributed to a known defect region only from the case (configuration + port history), never "
    "from DUT outputs; an unattributable mismatch anywhere in the history takes precedence; where several regions "
    "apply, one that known_findings.json currently lists as known is preferred",
]


def budget(tier):
    return dict(examples=70, seconds=40) if tier == "quick" else dict(examples=700, seconds=300)


@st.composite
def strategy(draw, tier="quick"):
    kind = draw(st.sampled_from(["MultiRead", "XOR", "XOR", "XORILVT", "XORILVT", "OneHotILVT", "OneHotILVT"]))
    depth = draw(st.one_of(st.integers(2, 17), st.sampled_from([2, 3, 5, 9, 16, 17])))
    width = draw(st.sampled_from([4, 2, 8, 3, 1, 6, 2, 1, 5, 3, 7]))
    nr = draw(st.integers(1, 3))
    nw = 1 if kind == "MultiRead" else draw(st.sampled_from([1, 2, 2, 3, 3]))
    if draw(st.booleans()):
        init = []
    else:
        n_init = draw(st.sampled_from([depth, depth, draw(st.integers(1, depth))]))
        init = [draw(st.integers(0, (1 << width) - 1)) for _ in range(n_init)]
    transp = []
    for _ in range(nr):
        t = draw(st.sampled_from(["none", "all", "some"]))
        transp.append(0 if t == "none" else (1 << nw) - 1 if t == "all" else draw(st.integers(0, (1 << nw) - 1)))
    gran = None
    if kind != "XOR" and draw(st.sampled_from([True, False, True, False, False])):
        # mostly a proper divisor (>= 2 granules); gran == width (a 1-bit mask) stays in as the degenerate case
        gran = draw(st.sampled_from(divisors(width)[:-1][::-1] * 3 + [width]))
    g = granules(width, gran)
    hi = 60 if tier == "quick" else 200
    total = draw(st.integers(5, hi))
    nseg = draw(st.integers(1, 3))
    per = max(1, total // nseg)
    hist = []
    for s in range(nseg):
        ww = [draw(st.integers(0, 8)) for _ in range(nw)]
        rw = [draw(st.integers(2, 8)) for _ in range(nr)]
        ncyc = per if s < nseg - 1 else max(1, total - per * (nseg - 1))
        for _ in range(ncyc):
            ws = []
            for j in range(nw):
                en = ww[j] and draw(st.integers(0, 7)) < ww[j]
                mask = 0
                if en:
                    full_write = g == 1 or draw(st.integers(0, 3)) == 0
                    mask = (1 << g) - 1 if full_write else draw(st.integers(1, (1 << g) - 1))
                ws.append([mask, draw(st.integers(0, 63)), draw(st.integers(0, (1 << width) - 1))])
            rs = []
            for i in range(nr):
                en = 1 if draw(st.integers(0, 7)) < rw[i] else 0
                rs.append([en, draw(st.integers(0, 7)), draw(st.integers(0, 63))])
            hist.append({"w": ws, "r": rs})
    return {
        "kind": kind,
        "depth": depth,
        "width": width,
        "nr": nr,
        "nw": nw,
        "init": init,
        "transp": transp,
        "gran": gran,
        "history": hist,
    }


def resolve(case):
    """Turn selectors into concrete port values: per cycle (writes [(mask, addr, data)], reads [(en, addr)])."""
    depth, width, nw = case["depth"], case["width"], case["nw"]
    out = []
    waddrs = []  # per cycle list of write addresses (all ports)
    for cyc, rec in enumerate(case["history"]):
        taken = []
        ws = []
        for mask, sel, data in rec["w"]:
            if mask:
                cand = [a for a in range(depth) if a not in taken]
                if not cand:
                    mask = 0
                else:
                    addr = cand[sel % len(cand)]
                    taken.append(addr)
            if not mask:
                addr = sel % depth
            ws.append((mask, addr, data))
        waddrs.append([w[1] for w in ws])
        rs = []
        for en, mode, sel in rec["r"]:
            if mode == 2:
                addr = waddrs[cyc][sel % nw]
            elif mode == 3 and cyc >= 1:
                addr = waddrs[cyc - 1][sel % nw]
            elif mode == 4 and cyc >= 2:
                addr = waddrs[cyc - 2][sel % nw]
            elif mode == 5:
                # alias row: equal to a row written this cycle modulo 2**width
                base = waddrs[cyc][sel % nw]
                al = [a for a in range(depth) if a != base and (a - base) % (1 << width) == 0]
                addr = al[(sel // nw) % len(al)] if al else base
            else:
                addr = sel % depth
            rs.append((en, addr))
        out.append((ws, rs))
    return out


class Tracker:
    """History-only bookkeeping: classes for the non-triviality rule and attribution of mismatches to known regions."""

    def __init__(self, case, ports):
        self.case = case
        self.ports = ports
        self.g = granules(case["width"], case["gran"])
        self.full = (1 << self.g) - 1
        init = case["init"]
        self.init = [init[a] if a < len(init) else 0 for a in range(case["depth"])]

    def writes_to(self, row, upto):
        """(cycle, port, mask) of enabled writes to `row` in cycles <= upto."""
        return [
            (t, j, m)
            for t in range(min(upto + 1, len(self.ports)))
            for j, (m, a, _) in enumerate(self.ports[t][0])
            if m and a == row
        ]

    def last_read(self, port, cyc):
        for t in range(cyc, -1, -1):
            en, addr = self.ports[t][1][port]
            if en:
                return t, addr
        return None

    def region(self, cyc, port):
        """Known-defect regions (keys, computed from the case only) a mismatch on `port` after the edge of cycle `cyc`
        may belong to; empty = unattributable."""
        from amaranth.utils import bits_for

        c = self.case
        kind, width, depth, nw = c["kind"], c["width"], c["depth"], c["nw"]
        lr = self.last_read(port, cyc)
        if lr is None:
            return []
        t, r = lr
        tmask = c["transp"][port]
        now = [(j, m, a) for j, (m, a, _) in enumerate(self.ports[t][0]) if m]
        hist = self.writes_to(r, t)
        out = []
        if kind in ILVT_KINDS and self.g >= 2:
            # transparent bypass looks at mask bit 0 only and forwards the whole word
            if any((tmask >> j) & 1 and a == r and m != self.full for j, m, a in now):
                out.append("ILVT:granular+transparent")
            # a partial write makes the writing bank the owner of the whole row
            if nw >= 2 and any(m != self.full for _, _, m in hist):
                out.append("ILVT:granular+multiwrite")
        if kind in ILVT_KINDS and narrow(width, depth) and r >> width:
            # F3: the registered read address is declared with the data shape -> truncated comparison in the bypass
            if any((tmask >> j) & 1 and a in (r, r & ((1 << width) - 1)) for j, m, a in now):
                out.append("ILVT:width<addrbits+transparent")
        if kind == "XORILVT":
            # F2: the ILVT (an XOR memory of bank numbers) is initialised with the data init
            if self.init[r] & ((1 << bits_for(nw - 1)) - 1) and not any(j == 0 and tt < t for tt, j, _ in hist):
                out.append("ILVT:xor-init")
        if kind == "XOR" and nw >= 2:
            # F1: feedback copies of bank 0 lack the init
            if self.init[r] and any(j >= 1 for _, j, _ in hist) and not any(j == 0 and tt < t for tt, j, _ in hist):
                out.append("XORMemory:init+multiwrite")
        return out


def run_case(case) -> Result:
    from amaranth import Module
    from amaranth.sim import Simulator
    import amaranth.lib.memory as amem

    kind, depth, width, nr, nw = case["kind"], case["depth"], case["width"], case["nr"], case["nw"]
    gran, transp, init = case["gran"], case["transp"], case["init"]
    g = granules(width, gran)
    res = Result(labels=[kind, f"w{nw}"])
    if init:
        res.labels.append("init")
    if gran is not None:
        res.labels.append("gran" if g >= 2 else "gran1")
    if narrow(width, depth):
        res.labels.append("narrow")
    if any(transp):
        res.labels.append("transparent")

    m = Module()
    m.submodules.dut = dut = mem_class(kind)(shape=width, depth=depth, init=list(init))
    m.submodules.ref = ref = amem.Memory(shape=width, depth=depth, init=list(init))
    dw = [dut.write_port(granularity=gran) for _ in range(nw)]
    rw = [ref.write_port(granularity=gran) for _ in range(nw)]
    dr = [dut.read_port(transparent_for=[dw[j] for j in range(nw) if (transp[i] >> j) & 1]) for i in range(nr)]
    rr = [ref.read_port(transparent_for=[rw[j] for j in range(nw) if (transp[i] >> j) & 1]) for i in range(nr)]
    sim = Simulator(m)
    sim.add_clock(1e-6)

    ports = resolve(case)
    trk = Tracker(case, ports)
    mismatches = []
    flags = dict(rd1=False, rd2=False, same_cycle=False, same_cycle_transp=False, hold_after_write=False)

    async def tb(ctx):
        for cyc, (ws, rs) in enumerate(ports):
            for j, (mask, addr, data) in enumerate(ws):
                for p in (dw[j], rw[j]):
                    ctx.set(p.en, mask)
                    ctx.set(p.addr, addr)
                    ctx.set(p.data, data)
            for i, (en, addr) in enumerate(rs):
                for p in (dr[i], rr[i]):
                    ctx.set(p.en, en)
                    ctx.set(p.addr, addr)
            await ctx.tick()
            for i in range(nr):
                got, exp = ctx.get(dr[i].data), ctx.get(rr[i].data)
                if got != exp:
                    mismatches.append((cyc, i, got, exp))
            # classes (history only)
            for i, (en, addr) in enumerate(rs):
                if en:
                    for j, (mask, a, _) in enumerate(ws):
                        if mask and a == addr:
                            flags["same_cycle"] = True
                            if (transp[i] >> j) & 1:
                                flags["same_cycle_transp"] = True
                    if cyc >= 1 and any(mk and a == addr for mk, a, _ in ports[cyc - 1][0]):
                        flags["rd1"] = True
                    if cyc >= 2 and any(mk and a == addr for mk, a, _ in ports[cyc - 2][0]):
                        flags["rd2"] = True
                elif cyc >= 1:
                    lr = trk.last_read(i, cyc)
                    if lr is not None and any(mk and a == lr[1] for mk, a, _ in ports[cyc - 1][0]):
                        flags["hold_after_write"] = True

    sim.add_testbench(tb)
    sim.run()
    res.stats["cycles"] = len(ports)
    res.stats["compared"] = len(ports) * nr
    for k, v in flags.items():
        if v:
            res.labels.append(k)
    if any(not mk and any(m2 and a2 == a and j2 != j for j2, (m2, a2, _) in enumerate(ws)) for ws, _ in ports
           for j, (mk, a, _) in enumerate(ws)):
        res.labels.append("disabled_port_same_row")
    res.nontrivial = flags["rd1"] and flags["rd2"] and (flags["same_cycle"] or flags["hold_after_write"])

    if mismatches:
        # report the most alarming mismatch of the history: unattributable first, then one whose candidate regions are
        # all not (or no longer) registered as known, then the first one
        attributed = [(mm, trk.region(mm[0], mm[1])) for mm in mismatches]
        kk = known_keys(ID)
        attributed.sort(key=lambda x: 0 if not x[1] else 1 if not (set(x[1]) & kk) else 2)
        (cyc, i, got, exp), regs = attributed[0]
        reg = pick_key(ID, regs)
        lr = trk.last_read(i, cyc)
        res.labels.append("mismatch:" + (reg or "unattributed"))
        return res.fail(
            f"{kind} depth={depth} width={width} r{nr}w{nw} gran={gran} transp={transp} "
            f"init={'yes' if init else 'no'}: "
            f"after cycle {cyc} read port {i} (last enabled read: cycle/row {lr}) shows {got}, reference memory {exp}",
            vkey=reg,
        )
    return res
