"""C08 - conflict priorities are respected."""

from hypothesis import strategies as st

from tv.designs import gen_conflict_graph_spec, gen_spec
from tv.props._core_a import run_design, tier_opts

ID = "C08"
ENGINE = "A"
RULE = (
    "case = generated design under the eager scheduler with 1-3 relations: prioritised add_conflict (LEFT/RIGHT) between "
    "transactions or lifted from methods, unprioritised conflicts and schedule_before chains (accepted only if our own "
    "priority graph stays acyclic), all / 256 drawn valuations; oracle = for add_conflict(a, b, LEFT) and every pair "
    "(Ta reaching a, Tb reaching b) both fully enabled: Tb runs only if some third running transaction may-conflicts "
    "with Ta; plus the C07 predicate (so schedule_before alone never blocks a side); non-trivial = a valuation where "
    "both sides of a prioritised conflict are fully enabled"
)
ASSUMPTIONS = ["amaranth.sim.Simulator is the trusted execution model"]
TECHNIQUE = "grammar-based design generation + exhaustive input valuations against a semantic predicate"


def budget(tier):
    return dict(examples=70, seconds=45) if tier == "quick" else dict(examples=300, seconds=420)


def strategy(tier):
    general = gen_spec(**{**tier_opts(tier), **dict(allow_rels=True, min_rels=1, sched="eager", max_trans=4, allow_same_trans_conf=False)})
    # one case in four is a relation-heavy design (many small transactions, hub / chain conflict topologies)
    graph = gen_conflict_graph_spec(sched="eager")
    return st.integers(0, 3).flatmap(lambda k: graph if k == 3 else general)


def run_case(case):
    res, an, orc, exc = run_design(case, ["c08", "c07"])
    if orc is None:
        return res
    for r in case["rels"]:
        res.labels.append("rel_sb" if r[0] == "sb" else "rel_conf_" + r[3])
    res.stats["both_sides_enabled"] = orc.stats.get("prio_both", 0)
    res.nontrivial = orc.stats.get("prio_both", 0) > 0
    return res
