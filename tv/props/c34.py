"""C34 - hardware logs and assertions fire exactly when triggered, formatted as Python's format would."""

from __future__ import annotations

import contextlib
import io
import json
import logging
import os
import re
import sys

from hypothesis import strategies as st

from tv.core import Result
from tv import obs  # puts the repository under test on sys.path
from tv.cyc import _Top

# imported once in the parent process; forked workers inherit the loaded modules
from amaranth.hdl._ast import SignalDict  # noqa: E402
from amaranth.sim import Simulator  # noqa: E402
from transactron.core import TransactronContextElaboratable  # noqa: E402
from transactron.testing.logging import HDLLogWrapper, make_logging_process  # noqa: E402
from transactron.testing.test_case import TestCaseWithSimulatorBase  # noqa: E402
from transactron.testing.tick_count import make_tick_count_process  # noqa: E402
from transactron.utils.dependencies import DependencyContext, DependencyManager  # noqa: E402
from transactron.utils.gen import GeneratedLog, VerilogDebugWrapper  # noqa: E402

ID = "C34"
ENGINE = "C"
TECHNIQUE = "generated log statements in a simulated design, python model of trigger/context/format, 4 back-ends"
RULE = (
    "case = 1-4 log statements (debug/info/warning/error/assertion/log(level), module / top_* / module-level function "
    "variants) placed under generated module contexts (If/Else/Elif/Switch case, transaction body, method body), each "
    "with a 1-3 bit trigger, 0-3 fields (signal, expression, lib.enum, python constant) with format specs drawn from "
    "Amaranth's grammar (fill/align/sign/#/0/width/_, types b o d x X c s), referenced positionally, by index (with "
    "reuse) or by keyword; a level threshold and namespace regexp; a 6-30 cycle history of condition, request, trigger "
    "and field values.  Back-ends: the real TestCaseWithSimulatorBase wiring (env-variables, stream handler with cycle "
    "numbers, AssertionError on ERROR), make_logging_process with a counting or raising on_error, additionally "
    "HDLLogWrapper prints, or the generated-design path (VerilogDebugWrapper signals recorded per cycle, formatted by "
    "JSON-round-tripped GeneratedLog records); record locations must name the calling line.  "
    "non-trivial = (a signed field with a width/sign spec was reported with a negative value, or two records were "
    "reported in one cycle) and some record was blocked only by its module context"
)
ASSUMPTIONS = [
    "amaranth.sim.Simulator is the trusted execution model (simulation processes run before test-benches on a tick)",
    "'c' and 's' formats are exercised with printable ASCII payloads only ('s' = little-endian bytes, NUL padding "
    "dropped: Amaranth's meaning, Python cannot apply 's' to an int)",
    "lib.enum fields take member values only and are expected to print the member name (Amaranth's documented format)",
    "the order of records reported within one cycle is not part of the property (compared as multisets per cycle)",
    "record levels are the four standard ones in the TestCaseWithSimulatorBase wiring (its formatter knows only those)",
]

LOGGERS = ["a", "a.b", "core.x", "b", "core.b.y"]
FILTERS = [".*", "^a", "b", r"core\.", "x$", r"^(a|b)$"]
LITS = ["", " ", "x=", ", ", "{{", "}}", "100% ", "[a:b] ", "v", "-", "0x"]
FILLS = ["*", "0", " ", ".", "#", "+", "-", "_", "<", "x"]
STD_LEVELS = [10, 20, 30, 40]
ALL_LEVELS = [5, 10, 15, 20, 25, 30, 35, 40]
TC_THRESHOLDS = ["DEBUG", "INFO", "WARNING", "ERROR", "debug", "Warning", "warn", "NOTSET", "0", "10", "15", "20", "25", "30", "35", "40"]
TC_THRESHOLDS_LOW = ["DEBUG", "debug", "NOTSET", "0", "10", "15", "INFO", "20"]
API_LEVEL = {"debug": 10, "info": 20, "warning": 30, "error": 40, "assertion": 40}


def budget(tier):
    return dict(examples=100, seconds=30) if tier == "quick" else dict(examples=1500, seconds=400)


# ------------------------------------------------------------------------------------------------ strategy


@st.composite
def int_spec(draw):
    typ = draw(st.sampled_from(["", "d", "d", "x", "X", "b", "o"]))
    s = ""
    align = draw(st.sampled_from(["", "", "<", ">", "="]))
    if align:
        if draw(st.booleans()):
            s += draw(st.sampled_from(FILLS))
        s += align
    s += draw(st.sampled_from(["", "", "+", "-", " "]))
    s += draw(st.sampled_from(["", "", "#"]))
    s += draw(st.sampled_from(["", "", "0"]))
    s += draw(st.sampled_from(["", "", "1", "3", "5", "8", "12"]))
    s += draw(st.sampled_from(["", "", "", "_"]))
    return s + typ


@st.composite
def str_spec(draw, typ):
    s = ""
    align = draw(st.sampled_from(["", "<", ">"]))
    if align:
        if draw(st.booleans()):
            s += draw(st.sampled_from(FILLS))
        s += align
    s += draw(st.sampled_from(["", "", "1", "3", "6"]))
    return s + typ


@st.composite
def field(draw):
    kind = draw(st.sampled_from(["sig", "sig", "sig", "sig", "plus1", "neg", "enum", "pyconst", "chr", "str"]))
    if kind == "enum":
        return {"kind": kind, "w": 2, "signed": False, "spec": ""}
    if kind == "chr":
        return {"kind": kind, "w": draw(st.integers(7, 9)), "signed": False, "spec": draw(str_spec("c"))}
    if kind == "str":
        return {"kind": kind, "w": draw(st.sampled_from([8, 16, 24])), "signed": False, "spec": draw(str_spec("s"))}
    if kind == "pyconst":
        return {"kind": kind, "w": 0, "signed": True, "spec": draw(int_spec()), "val": draw(st.integers(-40, 300))}
    return {
        "kind": kind,
        "w": draw(st.integers(1, 12)),
        "signed": draw(st.booleans()),
        "spec": draw(int_spec()),
    }


@st.composite
def record(draw, mode):
    api = draw(
        st.sampled_from(
            ["debug", "info", "info", "warning", "warning", "error", "assertion", "log", "log"]
        )
    )
    variant = draw(st.sampled_from(["m", "m", "m", "top"] + (["fn", "fntop"] if api == "assertion" else [])))
    level = API_LEVEL.get(api)
    if api == "log":
        level = draw(st.sampled_from(STD_LEVELS if mode == "testcase" else ALL_LEVELS))
    is_err = level >= 40
    trig_const = (not is_err) and draw(st.integers(0, 5)) == 0
    fields = draw(st.lists(field(), min_size=0, max_size=3))
    style = draw(st.sampled_from(["auto", "auto", "index", "kw"]))
    # python constants are formatted at elaboration: keep them positional/keyword like any other argument
    refs = list(range(len(fields)))
    if style != "auto" and fields:
        refs = draw(st.permutations(refs))
        if draw(st.booleans()):
            refs = list(refs) + [draw(st.sampled_from(refs))]
    lits = [draw(st.integers(0, len(LITS) - 1)) for _ in range(len(refs) + 1)]
    if api == "assertion":
        bias = draw(st.sampled_from([8, 8, 7, 7, 6]))  # probability (in 1/8) of the asserted value being non-zero
    elif is_err:
        bias = draw(st.sampled_from([0, 0, 1, 1, 2]))
    else:
        bias = draw(st.integers(2, 8))
    return {
        "api": api,
        "variant": variant,
        "level": level,
        "logger": draw(st.integers(0, len(LOGGERS) - 1)),
        "place": draw(obs.places()),
        "trig_w": draw(st.integers(1, 3)),
        "trig_const": trig_const,
        "fields": fields,
        "style": style,
        "refs": list(refs),
        "lits": lits,
        "bias": bias,
    }


@st.composite
def strategy(draw, tier="quick"):
    mode = ["direct", "testcase", "testcase"][draw(st.integers(0, 2))]
    recs = draw(st.lists(record(mode), min_size=1, max_size=4))
    case = {"mode": mode, "records": recs, "filter": draw(st.sampled_from([0, 0, 0, 0, 0, 1, 2, 3, 4, 5]))}
    # the field signals of different records carry the same NAME (signals created in a loop, as for lanes or ports)
    case["same_names"] = draw(st.integers(0, 2)) == 0
    low = draw(st.integers(0, 9)) < 6  # most thresholds let most records through
    if mode == "testcase":
        case["level"] = draw(st.sampled_from(TC_THRESHOLDS_LOW if low else TC_THRESHOLDS))
    else:
        case["level"] = draw(st.sampled_from([0, 5, 10, 15, 20] if low else ALL_LEVELS + [45]))
        case["raise"] = draw(st.booleans())
    case["hdl"] = None
    case["gen"] = mode == "direct" and draw(st.booleans())
    if not case["gen"] and draw(st.integers(0, 2)) == 0:
        case["hdl"] = {
            "sep": draw(st.booleans()),
            "src": draw(st.booleans()),
            "level": draw(st.sampled_from([0, 0] + ALL_LEVELS)),
            "filter": draw(st.sampled_from([0, 0, 1, 2, 3])),
        }
    ncyc = draw(st.integers(6, 30 if tier == "quick" else 80))
    ctl = obs.ctl_history(draw, ncyc)
    cycles = []
    for c, e in ctl:
        t = []
        f = []
        for r in recs:
            nz = draw(st.integers(0, 7)) < r["bias"]
            t.append(draw(st.integers(1, (1 << r["trig_w"]) - 1)) if nz else 0)
            f.append([draw(st.integers(0, (1 << 26) - 1)) for _ in r["fields"]])
        cycles.append({"c": c, "e": e, "t": t, "f": f})
    case["cycles"] = cycles
    return case


# ------------------------------------------------------------------------------------------------ model


def parse_threshold(s):
    names = {"CRITICAL": 50, "FATAL": 50, "ERROR": 40, "WARN": 30, "WARNING": 30, "INFO": 20, "DEBUG": 10, "NOTSET": 0}
    return names[s.upper()] if s.upper() in names else int(s)


ENUM_NAMES = ["A", "BB", "LONGER"]


def field_value(fd, raw):
    """(value driven on the signal, python object to be formatted, python format spec)."""
    k = fd["kind"]
    if k == "pyconst":
        return None, fd["val"], fd["spec"]
    if k == "enum":
        v = raw % 3
        return v, ENUM_NAMES[v], ""
    if k == "chr":
        v = 33 + raw % 94
        return v, v, fd["spec"]
    if k == "str":
        n = fd["w"] // 8
        keep = n if raw & 1 else 1 + (raw >> 1) % n  # high bytes beyond `keep` are NUL padding
        bs = bytes(33 + (raw >> (3 + 7 * i)) % 94 for i in range(keep))
        return int.from_bytes(bs, "little"), bs.decode("ascii"), fd["spec"][:-1]
    v = obs.to_signed(raw, fd["w"], fd["signed"])
    if k == "plus1":
        return v, v + 1, fd["spec"]
    if k == "neg":
        return v, -v, fd["spec"]
    return v, v, fd["spec"]


def expected_message(rec, raws):
    out = [LITS[rec["lits"][0]].replace("{{", "{").replace("}}", "}")]
    for pos, fi in enumerate(rec["refs"]):
        _, obj, spec = field_value(rec["fields"][fi], raws[fi])
        out.append(format(obj, spec))
        out.append(LITS[rec["lits"][pos + 1]].replace("{{", "{").replace("}}", "}"))
    return "".join(out)


def format_string(rec):
    s = LITS[rec["lits"][0]]
    for pos, fi in enumerate(rec["refs"]):
        spec = rec["fields"][fi]["spec"]
        name = {"auto": "", "index": str(fi), "kw": f"k{fi}"}[rec["style"]]
        s += "{" + name + (":" + spec if spec else "") + "}"
        s += LITS[rec["lits"][pos + 1]]
    return s


def fires(rec, cyc) -> tuple[bool, bool]:
    """(trigger holds, module context active)"""
    i = rec["_idx"]
    tv = 1 if rec["trig_const"] else cyc["t"][i]
    trig = (tv == 0) if rec["api"] == "assertion" else (tv != 0)
    ctx = True if rec["variant"] in ("top", "fntop") else obs.place_active(rec["place"], cyc["c"], cyc["e"])
    return trig, ctx


# ------------------------------------------------------------------------------------------------ design


def _lineno():
    return sys._getframe(1).f_lineno


class _StopSim(Exception):
    pass


def make_design(case):
    from amaranth import Elaboratable, Signal, signed, unsigned
    from amaranth.lib import enum as aenum
    from transactron import TModule
    from transactron.utils import logging as tlog

    class E3(aenum.Enum, shape=2):
        A = 0
        BB = 1
        LONGER = 2

    same_names = bool(case.get("same_names"))

    class Design(Elaboratable):
        def __init__(self):
            self.c = [Signal(name=f"c{i}") for i in range(obs.NC)]
            self.en = [Signal(name=f"en{i}") for i in range(obs.NE)]
            self.trig = []
            self.fsig = []  # inputs driven by the test-bench
            self.finn = []  # combinationally driven copies used by the log statements
            self.lines = {}
            for i, r in enumerate(case["records"]):
                self.trig.append(Signal(r["trig_w"], name=f"t{i}"))
                for rows, pre in ((self.fsig, "fin"), (self.finn, "f")):
                    row = []
                    for j, fd in enumerate(r["fields"]):
                        if fd["kind"] == "pyconst":
                            row.append(None)
                        elif fd["kind"] == "enum":
                            row.append(Signal(E3, name=f"{pre}{'' if same_names else i}_{j}"))
                        else:
                            shape = signed(fd["w"]) if fd["signed"] else unsigned(fd["w"])
                            row.append(Signal(shape, name=f"{pre}{'' if same_names else i}_{j}"))
                    rows.append(row)

        def elaborate(self, platform):
            m = TModule()
            for i, r in enumerate(case["records"]):
                log = tlog.HardwareLogger(LOGGERS[r["logger"]])
                trig = True if r["trig_const"] else self.trig[i]
                vals = []
                for j, fd in enumerate(r["fields"]):
                    s = self.finn[i][j]
                    k = fd["kind"]
                    if s is not None:
                        m.d.top_comb += s.eq(self.fsig[i][j])
                    vals.append(fd["val"] if k == "pyconst" else s + 1 if k == "plus1" else -s if k == "neg" else s)
                fmt = format_string(r)
                if r["style"] == "kw":
                    args, kwargs = (), {f"k{j}": v for j, v in enumerate(vals)}
                else:
                    args, kwargs = tuple(vals), {}
                api, var = r["api"], r["variant"]
                lines = self.lines

                def emit():
                    # every call and its _lineno() share one source line: the record's location must name it
                    if var == "fn":
                        lines[i] = _lineno(); tlog.assertion(m, trig, fmt, *args, name=log.name, **kwargs)  # noqa: E702
                    elif var == "fntop":
                        lines[i] = _lineno(); tlog.top_assertion(trig, fmt, *args, name=log.name, **kwargs)  # noqa: E702
                    elif var == "top" and api == "log":
                        lines[i] = _lineno(); log.top_log(r["level"], trig, fmt, *args, **kwargs)  # noqa: E702
                    elif var == "top":
                        lines[i] = _lineno(); getattr(log, "top_" + api)(trig, fmt, *args, **kwargs)  # noqa: E702
                    elif api == "log":
                        lines[i] = _lineno(); log.log(m, r["level"], trig, fmt, *args, **kwargs)  # noqa: E702
                    else:
                        lines[i] = _lineno(); getattr(log, api)(m, trig, fmt, *args, **kwargs)  # noqa: E702

                obs.build_under(m, r["place"], self.c, self.en, i, emit)
            return m

    return Design()


class _Cap(logging.Handler):
    def __init__(self, events):
        super().__init__()
        self.events = events

    def emit(self, r):
        self.events.append(("log", r.levelno, r.name, r.getMessage()))


_ANSI = re.compile(r"\x1b\[[0-9;]*m")


def run_case(case) -> Result:
    mode = case["mode"]
    recs = [dict(r, _idx=i) for i, r in enumerate(case["records"])]
    thr = parse_threshold(case["level"]) if mode == "testcase" else case["level"]
    flt = FILTERS[case["filter"]]
    res = Result(labels=[mode] + (["hdl"] if case["hdl"] else []))
    passing = [r for r in recs if r["level"] >= thr and re.search(flt, LOGGERS[r["logger"]])]
    raising = mode == "testcase" or case.get("raise", False)
    if len(passing) < len(recs):
        res.labels.append("some_filtered")
    if any(r["level"] == thr for r in recs):
        res.labels.append("level_eq_threshold")

    # ---------------- model: expected events per cycle
    exp_cycles = []  # list of list of (level, name, msg)
    err_cycle = None
    flags = dict(two_in_cycle=False, signed_spec_neg=False, ctx_blocked=False, top_ignores_ctx=False, enum=False, strf=False)
    for cn, cyc in enumerate(case["cycles"]):
        cur = []
        for r in recs:
            trig, ctx = fires(r, cyc)
            if trig and not ctx:
                flags["ctx_blocked"] = True
            if not (trig and ctx) or r not in passing:
                continue
            if r["variant"] in ("top", "fntop") and not obs.place_active(r["place"], cyc["c"], cyc["e"]):
                flags["top_ignores_ctx"] = True
            cur.append((r["level"], LOGGERS[r["logger"]], r["_idx"], expected_message(r, cyc["f"][r["_idx"]])))
            for fi in r["refs"]:
                fd = r["fields"][fi]
                if fd["kind"] in ("sig", "plus1", "neg") and fd["signed"]:
                    _, obj, spec = field_value(fd, cyc["f"][r["_idx"]][fi])
                    if obj < 0 and re.search(r"[-+ ]|[1-9]", spec):
                        flags["signed_spec_neg"] = True
                if fd["kind"] == "enum":
                    flags["enum"] = True
                if fd["kind"] in ("str", "chr"):
                    flags["strf"] = True
        if len(cur) >= 2:
            flags["two_in_cycle"] = True
        exp_cycles.append(cur)
        if any(lv >= 40 for lv, _, _, _ in cur) and err_cycle is None:
            err_cycle = cn
            if raising:
                break

    # ---------------- run
    events = []  # ("log", level, name, msg) | ("err",)
    marks = []  # len(events) after each completed cycle
    cap = _Cap(events)
    root = logging.getLogger()
    old_level, old_disable, old_handlers = root.level, root.manager.disable, root.handlers[:]
    root.setLevel(1)
    logging.disable(logging.NOTSET)
    root.addHandler(cap)
    err_io, out_io = io.StringIO(), io.StringIO()
    design_box = {}
    ended = None

    gen_trace = []  # per cycle: [(trigger value, [field values])] of VerilogDebugWrapper's signals

    def wrap(d):
        if case.get("gen"):
            design_box["gen"] = VerilogDebugWrapper(d)
            return design_box["gen"]
        if case["hdl"]:
            h = case["hdl"]
            return HDLLogWrapper(
                d,
                print_cycle_separator=h["sep"],
                print_src_loc=h["src"],
                level=h["level"],
                namespace_regexp=FILTERS[h["filter"]],
            )
        return d

    def make_tb(d):
        async def tb(ctx):
            for cyc in case["cycles"]:
                for i, s in enumerate(d.c):
                    ctx.set(s, cyc["c"][i])
                for i, s in enumerate(d.en):
                    ctx.set(s, cyc["e"][i])
                for i, r in enumerate(recs):
                    ctx.set(d.trig[i], cyc["t"][i])
                    for j, fd in enumerate(r["fields"]):
                        v, _, _ = field_value(fd, cyc["f"][i][j])
                        if v is not None:
                            ctx.set(d.fsig[i][j], v)
                if "gen" in design_box:
                    gen_trace.append(
                        [(ctx.get(g.trigger), [ctx.get(f) for f in g.fields]) for g in design_box["gen"].records]
                    )
                await ctx.tick()
                marks.append(len(events))

        return tb

    saved_env = {k: os.environ.get(k) for k in ("__TRANSACTRON_LOG_LEVEL", "__TRANSACTRON_LOG_FILTER")}
    try:
        with contextlib.redirect_stderr(err_io), contextlib.redirect_stdout(out_io):
            if mode == "testcase":
                os.environ["__TRANSACTRON_LOG_LEVEL"] = case["level"]
                os.environ["__TRANSACTRON_LOG_FILTER"] = flt
                for k in ("__TRANSACTRON_DUMP_TRACES", "__TRANSACTRON_PROFILE", "__TRANSACTRON_EVLOG"):
                    os.environ.pop(k, None)
                tc = TestCaseWithSimulatorBase()
                try:
                    with tc.ctx_testing_env("c34"):
                        d = design_box["d"] = make_design(case)
                        with tc.run_simulation(wrap(d)) as sim:
                            sim.add_testbench(make_tb(d))
                except AssertionError as e:
                    ended = f"AssertionError({e})"
            else:
                dm = DependencyManager()
                with DependencyContext(dm):
                    d = design_box["d"] = make_design(case)
                    sim = Simulator(_Top(TransactronContextElaboratable(wrap(d), dependency_manager=dm)))
                    sim.add_clock(1e-6)

                    def on_error():
                        events.append(("err",))
                        if raising:
                            raise _StopSim()

                    sim.add_process(make_tick_count_process())
                    sim.add_process(make_logging_process(thr, flt, on_error))
                    sim.add_testbench(make_tb(d))
                    try:
                        sim.run()
                    except _StopSim:
                        ended = "StopSim"
    finally:
        # (ctx_testing_env leaves its stream handler installed when the simulation ends with an exception)
        root.handlers[:] = old_handlers
        root.setLevel(old_level)
        logging.disable(old_disable)
        for k, v in saved_env.items():
            if v is None:
                os.environ.pop(k, None)
            else:
                os.environ[k] = v

    d = design_box["d"]
    here = os.path.relpath(__file__)
    if here.endswith(".pyc"):
        here = here[:-1]

    def full(idx, msg):
        return f"[{here}:{d.lines[idx]}] {msg}"

    res.stats["cycles"] = len(marks)
    # ---------------- compare: split captured events by cycle
    bounds = [0] + marks
    got_cycles = [events[bounds[i]: bounds[i + 1]] for i in range(len(marks))]
    tail = events[bounds[-1]:]
    if tail:
        got_cycles.append(tail)

    if raising and err_cycle is not None:
        if ended is None:
            return res.fail(
                f"an ERROR-level record triggered in cycle {err_cycle} but the simulation ran to the end without a failure"
            )
        if len(marks) != err_cycle:
            return res.fail(
                f"simulation ended with {ended} after {len(marks)} completed cycles; first ERROR-level trigger is in cycle {err_cycle}"
            )
        res.labels.append("ended_by_error")
        if err_cycle > 0:
            res.labels.append("error_after_cycle0")
    else:
        if ended is not None:
            return res.fail(f"simulation ended with {ended} after {len(marks)} cycles although no ERROR-level record triggered")
        if len(marks) != len(case["cycles"]):
            return res.fail(f"test-bench completed {len(marks)} of {len(case['cycles'])} cycles")
    if len(got_cycles) > len(exp_cycles):
        return res.fail(f"records reported in cycle {len(got_cycles) - 1} after the expected end: {got_cycles[-1][:3]}")

    n_err_calls = 0
    for cn, exp in enumerate(exp_cycles):
        got = got_cycles[cn] if cn < len(got_cycles) else []
        got_logs = [(e[1], e[2], e[3]) for e in got if e[0] == "log"]
        exp_logs = [(lv, nm, full(idx, msg)) for lv, nm, idx, msg in exp]
        last = raising and cn == err_cycle
        if not last:
            if sorted(got_logs) != sorted(exp_logs):
                return res.fail(f"cycle {cn}: reported {sorted(got_logs)} expected {sorted(exp_logs)}")
        else:
            # the simulation ends at the first ERROR-level record: whatever was reported is a sub-multiset of the
            # expected records, and exactly one ERROR-level record, the last one, is among them
            rest = list(exp_logs)
            for g in got_logs:
                if g not in rest:
                    return res.fail(f"cycle {cn} (error cycle): reported {g} not among expected {exp_logs}")
                rest.remove(g)
            if sum(1 for g in got_logs if g[0] >= 40) != 1 or got_logs[-1][0] < 40:
                return res.fail(f"cycle {cn} (error cycle): reported {got_logs}, expected to end with one ERROR-level record")
        # on_error is called right after each ERROR-level record (direct mode)
        if mode == "direct":
            for k, e in enumerate(got):
                if e[0] == "err":
                    n_err_calls += 1
                    if k == 0 or got[k - 1][0] != "log" or got[k - 1][1] < 40:
                        return res.fail(f"cycle {cn}: on_error called without a preceding ERROR-level record: {got}")
            n_exp_err = sum(1 for lv, _, _ in got_logs if lv >= 40)
            if sum(1 for e in got if e[0] == "err") != n_exp_err:
                return res.fail(f"cycle {cn}: {n_exp_err} ERROR-level records reported but on_error calls: {got}")
    if mode == "direct" and not raising and n_err_calls > 1:
        res.labels.append("several_errors_counted")

    # ---------------- the TestCaseWithSimulatorBase stream handler: "<cycle> <LEVEL> <logger> <message>"
    if mode == "testcase":
        lines = [_ANSI.sub("", ln) for ln in err_io.getvalue().splitlines()]
        exp_lines = []
        flat = []
        for cn, got in enumerate(got_cycles):
            for e in got:
                if e[0] == "log":
                    flat.append((cn, e))
        for cn, e in flat:
            exp_lines.append(f"{cn} {logging.getLevelName(e[1])} {e[2]} {e[3]}")
        if lines != exp_lines:
            for a, b in zip(lines + [None] * len(exp_lines), exp_lines + [None] * len(lines)):
                if a != b:
                    return res.fail(f"stream handler printed {a!r}, expected {b!r} (cycle number, level, logger, message)")
    elif err_io.getvalue():
        return res.fail(f"unexpected output on stderr: {err_io.getvalue()[:200]!r}")

    # ---------------- HDLLogWrapper prints
    if case["hdl"]:
        h = case["hdl"]
        hpass = [r for r in recs if r["level"] >= h["level"] and re.search(FILTERS[h["filter"]], LOGGERS[r["logger"]])]
        ncheck = len(marks)  # completed cycles only (an aborted tick may or may not have printed)
        exp_out = []
        for cn, cyc in enumerate(case["cycles"][:ncheck]):
            cur = []
            for r in hpass:
                trig, ctx = fires(r, cyc)
                if trig and ctx:
                    pre = "" if h["sep"] else f"[{cn}] "
                    loc = f"{(here, d.lines[r['_idx']])} " if h["src"] else ""
                    cur.append(
                        f"{pre}{logging.getLevelName(r['level'])} {loc}{LOGGERS[r['logger']]}: "
                        + expected_message(r, cyc["f"][r["_idx"]])
                    )
            if cur and h["sep"]:
                exp_out.append((cn, [f"--- CYCLE {cn} ---"]))
            if cur:
                exp_out.append((cn, cur))
        got_out = out_io.getvalue().splitlines()
        pos = 0
        for cn, block in exp_out:
            g = got_out[pos: pos + len(block)]
            pos += len(block)
            if sorted(g) != sorted(block):
                return res.fail(f"HDLLogWrapper cycle {cn}: printed {g} expected {block}")
        extra = got_out[pos:]
        if extra and not (ended is not None):
            return res.fail(f"HDLLogWrapper printed unexpected lines {extra[:3]}")
        res.stats["hdl_lines"] = pos
    elif out_io.getvalue():
        return res.fail(f"unexpected output on stdout: {out_io.getvalue()[:200]!r}")

    # ---------------- generated-design path: serialized GeneratedLog records formatting recorded signal values
    if case.get("gen"):
        w = design_box["gen"]
        name_map = SignalDict()
        for i, g in enumerate(w.records):
            name_map[g.trigger] = ("top", "dbg", f"log_trigger_{i}")
            for j, f in enumerate(g.fields):
                if f not in name_map:
                    name_map[f] = ("top", "dbg", f"log{i}_field_{j}")
        glogs = [GeneratedLog.from_dict(json.loads(json.dumps(g.to_dict()))) for g in w.collect_logs(name_map)]
        if len(glogs) != len(recs):
            return res.fail(f"generated design lists {len(glogs)} log records, {len(recs)} registered")
        for i, (g, r) in enumerate(zip(glogs, recs)):
            got = (g.logger_name, g.level, tuple(g.location), tuple(g.trigger_location))
            exp = (LOGGERS[r["logger"]], r["level"], (here, d.lines[i]), ("top", "dbg", f"log_trigger_{i}"))
            if got != exp:
                return res.fail(f"generated log record {i}: {got} expected {exp}")
        for cn, row in enumerate(gen_trace):
            cyc = case["cycles"][cn]
            for i, (g, r) in enumerate(zip(glogs, recs)):
                tv, fv = row[i]
                trig, ctx = fires(r, cyc)
                if bool(tv) != (trig and ctx):
                    return res.fail(f"generated design: trigger of record {i} is {tv} in cycle {cn}, expected {trig and ctx}")
                if tv:
                    msg = g.format(*fv)
                    want = expected_message(r, cyc["f"][i])
                    if msg != want:
                        return res.fail(f"GeneratedLog.format gave {msg!r} expected {want!r} (record {i}, cycle {cn})")
                    res.stats["gen_formatted"] = res.stats.get("gen_formatted", 0) + 1
        res.labels.append("gen")

    for k, v in flags.items():
        if v:
            res.labels.append(k)
    res.stats["records_reported"] = sum(1 for e in events if e[0] == "log")
    res.nontrivial = (flags["signed_spec_neg"] or flags["two_in_cycle"]) and flags["ctx_blocked"]
    return res
