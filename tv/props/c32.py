"""C32 - FIFOLatencyMeasurer, WideFIFOLatencyMeasurer and TaggedLatencyMeasurer record true latencies."""

from hypothesis import strategies as st

from tv.core import Result
from tv.cyc import Harness, history, step

ID = "C32"
ENGINE = "B"
TECHNIQUE = "cycle driver + python model (queues of start cycles / slot table) + histogram tally"
RULE = (
    "case = (kind FIFO|WideFIFO|Tagged measurer, slots 1..6, max_latency 1..20 (thorough ..70), ways 1..3, WideFIFO: "
    "max_start_count/max_stop_count 1..3, history of per-cycle per-way start/stop requests with raw selectors: event "
    "counts (0 included) for WideFIFO, slot picks among free/taken slots for Tagged). The driver keeps every event "
    "within max_latency: a stop is forced (earliest-deadline first) whenever waiting one more cycle would let an "
    "event exceed it, and starts are limited so that this stays feasible. Oracle: accepted set consistent with the "
    "documented blocking (start blocks without free slots, stop blocks without started events, Tagged never blocks); "
    "after every cycle count/sum/min/max and all buckets of the exposed histogram equal the tally of true latencies "
    "(stop cycle - start cycle, FIFO order per way / by slot). Non-trivial = some event lived across a wrap of the "
    "epoch counter AND at least two events were pending at once"
)
ASSUMPTIONS = [
    "amaranth.sim.Simulator is the trusted execution model",
    "metrics are enabled (HwMetricsEnabledKey = True)",
    "latencies stay <= max_latency (documented: larger ones overflow), WideFIFO stop counts never exceed the number "
    "of pending events of that way, Tagged: only free slots are started, only taken slots stopped, no slot twice in "
    "one cycle",
    "WideFIFO capacity is between slots_number and slots_number rounded up to a multiple of max(start,stop) count; "
    "in that gap, for zero counts, and for start-at-full / stop-at-empty racing an opposite call of the same cycle "
    "both outcomes are accepted",
]


def budget(tier):
    return dict(examples=60, seconds=40) if tier == "quick" else dict(examples=1200, seconds=360)


@st.composite
def strategy(draw, tier="quick"):
    kind = draw(st.sampled_from(["wide", "tagged", "fifo", "tagged", "wide"]))
    ways = draw(st.sampled_from([2, 1, 3, 1]))
    max_lat = draw(st.sampled_from([5, 3, 8, 1, 2, 4, 7, 12, 16, 20] + ([33, 64, 70] if tier != "quick" else [])))
    case = {"kind": kind, "ways": ways, "max_latency": max_lat, "slots": draw(st.sampled_from([3, 2, 4, 1, 5, 6]))}
    if kind == "wide":
        case["max_start"] = draw(st.sampled_from([2, 1, 3]))
        case["max_stop"] = draw(st.sampled_from([2, 1, 3, None]))
    hi = 60 if tier == "quick" else 200
    methods = {}
    for k in range(ways):
        methods[f"start{k}"] = [64]
        methods[f"stop{k}"] = [64]
    case["history"] = draw(history(methods, 8, hi))
    return case


def feasible(queue, now, per_cycle, max_lat):
    """Can all events (sorted start cycles) still be stopped in time if stopping resumes at cycle `now` at full rate?"""
    return all(now + i // per_cycle - s <= max_lat for i, s in enumerate(queue))


def run_case(case) -> Result:
    from transactron.lib.metrics import (
        FIFOLatencyMeasurer,
        HwMetricsEnabledKey,
        TaggedLatencyMeasurer,
        WideFIFOLatencyMeasurer,
    )

    kind, ways, max_lat, slots = case["kind"], case["ways"], case["max_latency"], case["slots"]
    res = Result(labels=[kind, f"ways{ways}"])
    if kind == "fifo":
        ms_start = ms_stop = 1
        cap_lo = cap_hi = slots
        make = lambda: FIFOLatencyMeasurer("lat", "", slots_number=slots, max_latency=max_lat, ways=ways)  # noqa: E731
    elif kind == "wide":
        ms_start = case["max_start"]
        ms_stop = case["max_stop"] if case["max_stop"] is not None else ms_start
        mc = max(ms_start, ms_stop)
        cap_lo, cap_hi = slots, (slots + mc - 1) // mc * mc
        make = lambda: WideFIFOLatencyMeasurer(  # noqa: E731
            "lat",
            "",
            slots_number=slots,
            max_latency=max_lat,
            max_start_count=ms_start,
            max_stop_count=case["max_stop"],
            ways=ways,
        )
    else:
        make = lambda: TaggedLatencyMeasurer(  # noqa: E731
            "lat", "", slots_number=slots, max_latency=max_lat, ways=ways
        )

    h = Harness(make, dm_setup=lambda dm: dm.add_dependency(HwMetricsEnabledKey(), True))
    hist = h.dut.histogram
    sw = max_lat.bit_length()  # documented: widths and bucket count follow max_latency
    nb = sw + 1
    if len(hist.buckets) != nb:
        return res.fail(f"histogram has {len(hist.buckets)} buckets, bits_for(max_latency)+1 = {nb} expected")
    ep = 1 << sw
    tally = dict(count=0, sum=0, min=(1 << sw) - 1, max=0, b=[0] * nb)
    flags = dict(wrap=False, two_pending=False, at_max=False, race=False)

    def record(lat, s, e):
        tally["count"] += 1
        tally["sum"] += lat
        tally["min"] = min(tally["min"], lat)
        tally["max"] = max(tally["max"], lat)
        tally["b"][0 if lat == 0 else min(lat.bit_length(), nb - 1)] += 1
        if s // ep != e // ep:
            flags["wrap"] = True
        if lat == max_lat:
            flags["at_max"] = True

    def check_hist(ctx, cyc):
        got = dict(
            count=ctx.get(hist.count.value),
            sum=ctx.get(hist.sum.value),
            min=ctx.get(hist.min.value),
            max=ctx.get(hist.max.value),
            b=[ctx.get(b.value) for b in hist.buckets],
        )
        if got != tally:
            return f"cycle {cyc}: histogram {got}, true latencies give {tally}"
        return None

    async def tb_fifo(ctx):
        ios = h.ios(["start", "stop"])
        pend = [[] for _ in range(ways)]
        for now, rec in enumerate(case["history"]):
            reqs, plan = {}, {}
            for k in range(ways):
                q = pend[k]
                # ---- stop request of this way
                a = rec.get(f"stop{k}")
                n_stop = None
                if a is not None:
                    if kind == "fifo":
                        n_stop = 1
                    else:
                        n_stop = 0 if a[0] % 8 == 0 else 1 + (a[0] // 8) % max(1, min(ms_stop, len(q)))
                rest = q[(n_stop or 0):]
                if q and not feasible(rest, now + 1, ms_stop, max_lat):
                    n_stop = min(ms_stop, len(q))  # forced: waiting would push an event over max_latency
                    rest = q[n_stop:]
                    res.stats["forced_stops"] = res.stats.get("forced_stops", 0) + 1
                if n_stop is not None:
                    reqs[f"stop{k}"] = {} if kind == "fifo" else {"count": n_stop}
                # ---- start request of this way (limited so that the deadlines stay feasible)
                a = rec.get(f"start{k}")
                n_start = None
                if a is not None:
                    room = ms_stop * max_lat - len(rest)
                    if kind == "fifo":
                        n_start = 1 if room >= 1 else None
                    else:
                        n_start = 0 if a[0] % 8 == 0 else min(1 + (a[0] // 8) % ms_start, max(room, 0))
                if n_start is not None:
                    reqs[f"start{k}"] = {} if kind == "fifo" else {"count": n_start}
                plan[k] = (n_start, n_stop)
            results, _ = await step(ctx, ios, reqs)
            res.stats["cycles"] = res.stats.get("cycles", 0) + 1
            for k in range(ways):
                q = pend[k]
                n_start, n_stop = plan[k]
                s_acc, p_acc = results[f"start{k}"] is not None, results[f"stop{k}"] is not None
                if (s_acc and n_start is None) or (p_acc and n_stop is None):
                    return res.fail(f"cycle {now}: way {k} start/stop ran without being requested")
                if n_stop is not None:
                    if len(q) > 0 and not p_acc:
                        return res.fail(f"cycle {now}: stop{k}({n_stop}) blocked although {len(q)} events are pending")
                    if len(q) == 0 and p_acc and n_stop > 0 and not s_acc:
                        return res.fail(f"cycle {now}: stop{k}({n_stop}) accepted although no event is pending")
                if n_start is not None and n_start > 0:
                    if len(q) + n_start <= cap_lo and not s_acc:
                        return res.fail(
                            f"cycle {now}: start{k}({n_start}) blocked with {len(q)} pending of {cap_lo} slots"
                        )
                    if len(q) + n_start > cap_hi and s_acc and not (p_acc and n_stop):
                        return res.fail(
                            f"cycle {now}: start{k}({n_start}) accepted with {len(q)} pending of {cap_hi} slots"
                        )
                    if len(q) + n_start > cap_lo and s_acc:
                        flags["race"] = True
                if p_acc:
                    for _ in range(n_stop):
                        if q:
                            s = q.pop(0)
                        elif s_acc:  # stop overtaking a start of the same cycle: an event of length 0
                            s = now
                            n_start -= 1
                            flags["race"] = True
                        else:
                            break
                        record(now - s, s, now)
                if s_acc:
                    q.extend([now] * n_start)
                if len(q) >= 2:
                    flags["two_pending"] = True
            e = check_hist(ctx, now)
            if e:
                return res.fail(e)

    async def tb_tagged(ctx):
        ios = h.ios(["start", "stop"])
        taken = {}  # slot -> start cycle
        for now, rec in enumerate(case["history"]):
            reqs = {}
            order = sorted(taken, key=lambda s: (taken[s], s))  # oldest first
            cand = list(order)
            chosen = []
            for k in range(ways):
                a = rec.get(f"stop{k}")
                if a is not None and cand:
                    chosen.append((k, cand.pop(a[0] % len(cand))))
            rest = [taken[s] for s in order if s not in [c for _, c in chosen]]
            if not feasible(rest, now + 1, ways, max_lat):
                chosen = list(enumerate(order[:ways]))  # forced: the oldest events go first
                res.stats["forced_stops"] = res.stats.get("forced_stops", 0) + 1
            for k, s in chosen:
                reqs[f"stop{k}"] = {"slot": s}
            n_rest = len(taken) - len(chosen)
            free = [s for s in range(slots) if s not in taken]
            started = []
            for k in range(ways):
                a = rec.get(f"start{k}")
                if a is not None and free and n_rest + len(started) + 1 <= ways * max_lat:
                    s = free.pop(a[0] % len(free))
                    started.append(s)
                    reqs[f"start{k}"] = {"slot": s}
            results, _ = await step(ctx, ios, reqs)
            res.stats["cycles"] = res.stats.get("cycles", 0) + 1
            for n, _ in ios:
                if (results[n] is not None) != (n in reqs):
                    return res.fail(
                        f"cycle {now}: {n} requested={n in reqs} accepted={results[n] is not None} (never blocks)"
                    )
            for _, s in chosen:
                s0 = taken.pop(s)
                record(now - s0, s0, now)
            for s in started:
                taken[s] = now
            if len(taken) >= 2:
                flags["two_pending"] = True
            e = check_hist(ctx, now)
            if e:
                return res.fail(e)

    h.run(tb_tagged if kind == "tagged" else tb_fifo)
    res.stats["events"] = tally["count"]
    for k, v in flags.items():
        if v:
            res.labels.append(k)
    res.nontrivial = flags["wrap"] and flags["two_pending"]
    return res
