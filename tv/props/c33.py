"""C33 - the event log captures and decodes events faithfully."""

from __future__ import annotations

import dataclasses
import enum
import json
import os
import shutil
import sys
import tempfile

from hypothesis import strategies as st

from tv.core import Result, setup_paths
from tv import obs

setup_paths()

# imported once in the parent process; forked workers inherit the loaded modules
from amaranth.hdl._ast import SignalDict  # noqa: E402
from amaranth.sim import Simulator  # noqa: E402
from transactron.core import TransactronContextElaboratable  # noqa: E402
from transactron.evlog import (  # noqa: E402
    DecodedEvent,
    Event,
    EventConsumer,
    EventFieldSchema,
    EventLog,
    EventLogReader,
    EventLogWriter,
    EvLogEnabledKey,
    GeneratedEvLog,
    GeneratedEvLogSampler,
    Static,
    event,
    handles,
)
from transactron.testing.evlog import capture_evlog  # noqa: E402
from transactron.testing.test_case import TestCaseWithSimulatorBase  # noqa: E402
from transactron.testing.tick_count import make_tick_count_process  # noqa: E402
from transactron.utils.dependencies import DependencyContext, DependencyManager  # noqa: E402
from transactron.utils.gen import VerilogDebugWrapper  # noqa: E402
from tv.cyc import _Top  # noqa: E402

ID = "C33"
ENGINE = "C"
TECHNIQUE = "generated emission sites in a simulated design, python model of trigger/context/sampled values"
RULE = (
    "case = 1-5 emission sites picked from a fixed pool of 7 @event classes (int/bool/IntEnum/Enum dynamic fields, "
    "int/str/Enum statics with and without defaults, statics interleaved with dynamics), each with field values of "
    "generated width (1-12 bits, sometimes 16-80) / signedness (signal, expression, python constant, enum-shaped signal), a 1-3 bit or omitted "
    "`when`, emit/top_emit, placed under generated module contexts (If/Else/Elif/Switch, transaction body, method "
    "body); metadata; a 6-30 cycle history of condition, request, trigger and field values.  Checked: schema, raw log "
    "== model, decoded events (incl. field types), save/load, EventLogWriter, EventLogReader, GeneratedEvLogSampler "
    "(packed and per-site) over the recorded per-cycle values of VerilogDebugWrapper's signals, EventConsumer on a "
    "shuffled record list with a generated handler set; 1 case in 4 goes through TestCaseWithSimulatorBase's "
    "__TRANSACTRON_EVLOG wiring.  non-trivial = two sites fired in one cycle and (a negative value of a signed field "
    "or an Enum-typed field was recorded)"
)
ASSUMPTIONS = [
    "amaranth.sim.Simulator is the trusted execution model",
    "no Verilog tool-chain: GeneratedEvLogSampler reads, through a resolver, per-cycle values recorded from the "
    "simulated VerilogDebugWrapper signals (handles are synthetic names)",
    "Enum-typed dynamic fields only carry member values (decoding any other integer raises by design)",
    "records of one cycle may appear in any order in the raw log; cycles must be non-decreasing",
]


# ------------------------------------------------------------------------------------------------ event pool
# The @event registry is global per process: the pool is declared exactly once, at import.


class Kind(enum.IntEnum):
    A = 0
    B = 1
    C = 2


class SKind(enum.IntEnum):
    NEG = -2
    M1 = -1
    Z = 0
    P = 1


class Color(enum.Enum):
    RED = 1
    GREEN = 2
    BLUE = 5


class Unit(enum.Enum):
    ALU = "alu"
    MUL = "mul"


ENUMS = {"Kind": Kind, "SKind": SKind, "Color": Color, "Unit": Unit}


@event("tv.c33.e0")
class E0(Event):
    x: int
    s: int
    k: Kind
    lane: Static[int]


@event("tv.c33.e1")
class E1(Event):
    f: bool
    note: Static[str] = "n"


@event("tv.c33.e2")
class E2(Event):
    unit: Static[Unit]
    idx: Static[int] = 0


@event("tv.c33.e3")
class E3(Event):
    a: int
    b: int
    c: int
    d: bool


@event("tv.c33.e4")
class E4(Event):
    col: Color
    sk: SKind
    lane: Static[Kind]


@event("tv.c33.e5")
class E5(Event):
    v: int


@event("tv.c33.e6")
class E6(Event):
    lane: Static[int]
    x: int
    tag: Static[str]
    y: bool
    k: Kind = Kind.A  # dynamic field declared last, after statics


POOL = [E0, E1, E2, E3, E4, E5, E6]
# (name, annotation) in declaration order; statics marked
DYN = {
    0: [("x", int), ("s", int), ("k", Kind)],
    1: [("f", bool)],
    2: [],
    3: [("a", int), ("b", int), ("c", int), ("d", bool)],
    4: [("col", Color), ("sk", SKind)],
    5: [("v", int)],
    6: [("x", int), ("y", bool), ("k", Kind)],
}
STAT = {
    0: [("lane", int, False)],
    1: [("note", str, True)],
    2: [("unit", Unit, False), ("idx", int, True)],
    3: [],
    4: [("lane", Kind, False)],
    5: [],
    6: [("lane", int, False), ("tag", str, False)],
}
SOURCES = ["core.alu", "core.lsu", "front", "front.ftq"]
STRS = ["", "n", "lane-0", "ü", "a b", '"q"', "x\\y"]


def budget(tier):
    return dict(examples=80, seconds=30) if tier == "quick" else dict(examples=1500, seconds=400)


# ------------------------------------------------------------------------------------------------ strategy


@st.composite
def dyn_field(draw, typ):
    if typ is int:
        kind = draw(st.sampled_from(["sig", "sig", "sig", "plus1", "const"]))
        if kind == "const":
            return {"kind": kind, "val": draw(st.integers(-20, 100))}
        # mostly narrow; sometimes as wide as a data bus (beyond 32 and beyond the 53 bits a double holds exactly)
        w = draw(st.one_of(st.integers(1, 12), st.integers(1, 12), st.integers(1, 12), st.sampled_from([16, 32, 53, 54, 64, 65, 80])))
        return {"kind": kind, "w": w, "signed": draw(st.booleans())}
    if typ is bool:
        kind = draw(st.sampled_from(["sig", "sig", "sig", "const"]))
        if kind == "const":
            return {"kind": kind, "val": draw(st.booleans())}
        return {"kind": kind, "w": draw(st.sampled_from([1, 1, 2])), "signed": False}
    # enum
    kind = draw(st.sampled_from(["enumsig", "enumsig", "sig", "const"]))
    if kind == "const":
        return {"kind": kind, "member": draw(st.integers(0, len(list(typ)) - 1))}
    if kind == "sig":
        return {"kind": kind, "extra": draw(st.integers(0, 3))}
    return {"kind": kind}


@st.composite
def static_value(draw, typ, has_default):
    if has_default and draw(st.integers(0, 2)) == 0:
        return None  # omitted: the declared default is used
    if typ is int:
        return draw(st.integers(-5, 100))
    if typ is str:
        return draw(st.sampled_from(STRS))
    return draw(st.integers(0, len(list(typ)) - 1))  # member index


@st.composite
def site(draw):
    ev = draw(st.integers(0, len(POOL) - 1))
    api = draw(st.sampled_from(["emit", "emit", "emit", "top_emit"]))
    return {
        "ev": ev,
        "src": draw(st.integers(0, len(SOURCES) - 1)),
        "api": api,
        "place": draw(obs.places()),
        "when": draw(st.sampled_from(["sig", "sig", "sig", "default"])),
        "trig_w": draw(st.integers(1, 3)),
        "bias": draw(st.integers(2, 8)),
        "dyn": [draw(dyn_field(t)) for _, t in DYN[ev]],
        "stat": [draw(static_value(t, dflt)) for _, t, dflt in STAT[ev]],
    }


@st.composite
def strategy(draw, tier="quick"):
    sites = draw(st.lists(site(), min_size=1, max_size=5))
    ncyc = draw(st.integers(6, 30 if tier == "quick" else 80))
    ctl = obs.ctl_history(draw, ncyc)
    cycles = []
    for c, e in ctl:
        t, f = [], []
        for s in sites:
            nz = draw(st.integers(0, 7)) < s["bias"]
            t.append(draw(st.integers(1, (1 << s["trig_w"]) - 1)) if nz else 0)
            f.append([draw(st.integers(0, (1 << 14) - 1)) for _ in s["dyn"]])
        cycles.append({"c": c, "e": e, "t": t, "f": f})
    return {
        "enabled": draw(st.integers(0, 11)) != 11,
        "wiring": "testcase" if draw(st.integers(0, 3)) == 3 else "direct",
        "meta": draw(
            st.sampled_from([None, {}, {"config": "tiny"}, {"n": 3, "opts": ["a", 1, None], "nested": {"k": True}}])
        ),
        "sites": sites,
        "cycles": cycles,
        "consumer": {
            "base": draw(st.lists(st.integers(0, len(POOL) - 1), unique=True, max_size=4)),
            "derived": draw(st.lists(st.integers(0, len(POOL) - 1), unique=True, max_size=3)),
            "shuffle": draw(st.lists(st.integers(0, 1000), min_size=1, max_size=12)),
        },
    }


# ------------------------------------------------------------------------------------------------ model


def _enum_shape(typ):
    from amaranth import Shape

    return Shape.cast(typ)


def dyn_shape(fd, typ):
    """(width, signed) of the backing value."""
    from amaranth import Value

    k = fd["kind"]
    if k == "const":
        v = fd["val"] if "val" in fd else list(typ)[fd["member"]]
        if isinstance(v, enum.Enum) and not isinstance(v, int):
            v = v.value
        sh = Value.cast(v).shape()
        return sh.width, sh.signed
    if k == "enumsig":
        sh = _enum_shape(typ)
        return sh.width, sh.signed
    if k == "sig" and "extra" in fd:
        sh = _enum_shape(typ)
        return sh.width + fd["extra"], sh.signed
    if k == "plus1":
        from amaranth import Signal, signed, unsigned

        sh = (Signal(signed(fd["w"]) if fd["signed"] else unsigned(fd["w"])) + 1).shape()  # trusted base
        return sh.width, sh.signed
    return fd["w"], fd["signed"]


def dyn_value(fd, typ, raw):
    """(value to drive on the input signal or None, sampled raw value)."""
    k = fd["kind"]
    if k == "const":
        v = fd["val"] if "val" in fd else list(typ)[fd["member"]].value
        return None, int(v)
    if typ not in (int, bool):
        v = list(typ)[raw % len(list(typ))].value
        return v, v
    if fd["w"] > 14:  # the drawn raw value has 14 bits: spread it over the whole width (deterministically)
        raw = (raw * 0x9E3779B97F4A7C15F39CC0605CEDC8341082276BF3A27251) >> 7
    v = obs.to_signed(raw, fd["w"], fd["signed"])
    return (v, v + 1) if k == "plus1" else (v, v)


def convert(typ, raw):
    if typ is bool:
        return bool(raw)
    if typ is int:
        return raw
    return typ(raw)


def static_typed(typ, val):
    return list(typ)[val] if isinstance(typ, type) and issubclass(typ, enum.Enum) else val


def static_raw(typ, val):
    v = static_typed(typ, val)
    return v.value if isinstance(v, enum.Enum) else v


def defaults_of(cls):
    return {f.name: f.default for f in dataclasses.fields(cls) if f.default is not dataclasses.MISSING}


# ------------------------------------------------------------------------------------------------ design


def _lineno():
    return sys._getframe(1).f_lineno


def make_design(case):
    from amaranth import Elaboratable, Signal, signed, unsigned
    from transactron import TModule
    from transactron.evlog import EventSource

    class Design(Elaboratable):
        def __init__(self):
            self.c = [Signal(name=f"c{i}") for i in range(obs.NC)]
            self.en = [Signal(name=f"en{i}") for i in range(obs.NE)]
            self.trig = []
            self.fin = []
            self.lines = {}
            for i, s in enumerate(case["sites"]):
                self.trig.append(Signal(s["trig_w"], name=f"t{i}"))
                row = []
                for j, (fd, (_, typ)) in enumerate(zip(s["dyn"], DYN[s["ev"]])):
                    if fd["kind"] == "const":
                        row.append(None)
                    elif fd["kind"] == "enumsig":
                        row.append(Signal(typ, name=f"fin{i}_{j}"))
                    else:
                        w, sg = dyn_shape(dict(fd, kind="sig"), typ)
                        row.append(Signal(signed(w) if sg else unsigned(w), name=f"fin{i}_{j}"))
                self.fin.append(row)

        def elaborate(self, platform):
            m = TModule()
            for i, s in enumerate(case["sites"]):
                cls = POOL[s["ev"]]
                src = EventSource(SOURCES[s["src"]])
                kwargs = {}
                for j, (fd, (name, typ)) in enumerate(zip(s["dyn"], DYN[s["ev"]])):
                    if fd["kind"] == "const":
                        v = fd["val"] if "val" in fd else list(typ)[fd["member"]]
                        # a member of a plain (non-int) Enum is not an Amaranth value: pass its integer value
                        kwargs[name] = v if isinstance(v, int) else v.value
                        continue
                    # internal, combinationally driven copy (a generated design exposes driven signals only)
                    inner = Signal.like(self.fin[i][j], name=f"f{i}_{j}")
                    m.d.top_comb += inner.eq(self.fin[i][j])
                    kwargs[name] = inner + 1 if fd["kind"] == "plus1" else inner
                for (name, typ, _), val in zip(STAT[s["ev"]], s["stat"]):
                    if val is not None:
                        kwargs[name] = static_typed(typ, val)
                ev = cls.hw(**kwargs)
                when = {} if s["when"] == "default" else {"when": self.trig[i]}
                lines = self.lines

                def emit():
                    if s["api"] == "top_emit":
                        lines[i] = _lineno(); src.top_emit(ev, **when)  # noqa: E702
                    else:
                        lines[i] = _lineno(); src.emit(m, ev, **when)  # noqa: E702

                obs.build_under(m, s["place"], self.c, self.en, i, emit)
            return m

    return Design()


# ------------------------------------------------------------------------------------------------ check


def run_case(case) -> Result:
    sites = case["sites"]
    enabled = case["enabled"]
    wiring = case["wiring"]
    res = Result(labels=[wiring] + ([] if enabled else ["disabled"]))
    meta = case["meta"]

    # ---------------- model
    exp_raw = []  # (cycle, site, [values])
    flags = dict(two_sites_one_cycle=False, signed_negative=False, enum_field=False, ctx_blocked=False, top_ignores_ctx=False)
    for cn, cyc in enumerate(case["cycles"]):
        n = 0
        for i, s in enumerate(sites):
            trig = True if s["when"] == "default" else cyc["t"][i] != 0
            active = obs.place_active(s["place"], cyc["c"], cyc["e"])
            ctx = True if s["api"] == "top_emit" else active
            if trig and not ctx:
                flags["ctx_blocked"] = True
            if not (trig and ctx):
                continue
            if not active:
                flags["top_ignores_ctx"] = True
            vals = []
            for fd, (_, typ), raw in zip(s["dyn"], DYN[s["ev"]], cyc["f"][i]):
                _, v = dyn_value(fd, typ, raw)
                vals.append(v)
                if v < 0 and fd["kind"] != "const":
                    flags["signed_negative"] = True
                if typ not in (int, bool):
                    flags["enum_field"] = True
            exp_raw.append((cn, i, vals))
            n += 1
        if n >= 2:
            flags["two_sites_one_cycle"] = True
    if not enabled:
        exp_raw = []

    # ---------------- run the simulation
    trace = []  # per cycle: {handle tuple: value}
    box = {}
    tmpdir = tempfile.mkdtemp(prefix="tv-c33-")
    old_cwd = os.getcwd()
    saved_env = os.environ.get("__TRANSACTRON_EVLOG")

    def make_tb(d, wrapper):
        async def tb(ctx):
            sigs = None
            for cyc in case["cycles"]:
                for i, sg in enumerate(d.c):
                    ctx.set(sg, cyc["c"][i])
                for i, sg in enumerate(d.en):
                    ctx.set(sg, cyc["e"][i])
                for i, s in enumerate(sites):
                    ctx.set(d.trig[i], cyc["t"][i])
                    for j, (fd, (_, typ)) in enumerate(zip(s["dyn"], DYN[s["ev"]])):
                        v, _ = dyn_value(fd, typ, cyc["f"][i][j])
                        if v is not None:
                            ctx.set(d.fin[i][j], v)
                if sigs is None:
                    sigs = box["handles"] = handles_of(wrapper)
                trace.append({h: ctx.get(sg) for h, sg in sigs.items()})
                await ctx.tick()

        return tb

    def handles_of(wrapper):
        """Synthetic Verilog locations for the wrapper's debug signals."""
        out = {}
        for i, (_, trig, fields) in enumerate(wrapper.evlog_records):
            out[("top", "dbg", f"evlog_trigger_{i}")] = trig
            for j, f in enumerate(fields):
                out[("top", "dbg", f"site{i}", f"field_{j}")] = f
        if wrapper.evlog_triggers is not None:
            out[("top", "evlog_triggers")] = wrapper.evlog_triggers
        return out

    try:
        if wiring == "testcase":
            os.chdir(tmpdir)
            os.environ["__TRANSACTRON_EVLOG"] = "1"
            os.environ.setdefault("__TRANSACTRON_LOG_LEVEL", "WARNING")
            os.environ.setdefault("__TRANSACTRON_LOG_FILTER", ".*")
            tc = TestCaseWithSimulatorBase()
            with tc.ctx_testing_env("c33"):
                if enabled:
                    DependencyContext.get().add_dependency(EvLogEnabledKey(), True)
                d = make_design(case)
                wrapper = VerilogDebugWrapper(d)
                with tc.run_simulation(wrapper) as sim:
                    sim.add_testbench(make_tb(d, wrapper))
            wired_path = os.path.join(tmpdir, "test", "__evlogs__", "c33_0.jsonl")
            if exp_raw or (enabled and sites):
                if not os.path.exists(wired_path):
                    return res.fail("__TRANSACTRON_EVLOG set, sites registered, but no event log file was written")
                log = EventLog.load(wired_path)
            else:
                if os.path.exists(wired_path):
                    return res.fail("an event log file was written although no emission site is registered")
                log = None
            meta_expected = {}  # the wiring does not pass metadata
        else:
            dm = DependencyManager()
            if enabled:
                dm.add_dependency(EvLogEnabledKey(), True)
            with DependencyContext(dm):
                d = make_design(case)
                wrapper = VerilogDebugWrapper(d)
                sim = Simulator(_Top(TransactronContextElaboratable(wrapper, dependency_manager=dm)))
                sim.add_clock(1e-6)
                sim.add_process(make_tick_count_process())
                log, proc = capture_evlog(metadata=meta) if meta is not None else capture_evlog()
                sim.add_process(proc)
                sim.add_testbench(make_tb(d, wrapper))
                sim.run()
            meta_expected = meta or {}
        os.chdir(old_cwd)
        res.stats["cycles"] = len(trace)
        here = os.path.relpath(__file__, tmpdir if wiring == "testcase" else old_cwd)

        if log is None:
            res.labels.append("no_file_when_no_sites")
            return res

        # ---------------- schema
        sch = log.schema
        if sch.metadata != meta_expected:
            return res.fail(f"schema metadata {sch.metadata!r} expected {meta_expected!r}")
        n_exp_sites = len(sites) if enabled else 0
        if len(sch.sites) != n_exp_sites:
            return res.fail(f"{len(sch.sites)} sites in the schema, {n_exp_sites} emission sites registered")
        for i, (ss, s) in enumerate(zip(sch.sites, sites)):
            cls = POOL[s["ev"]]
            exp_fields = [
                EventFieldSchema(name=name, width=dyn_shape(fd, typ)[0], signed=dyn_shape(fd, typ)[1])
                for fd, (name, typ) in zip(s["dyn"], DYN[s["ev"]])
            ]
            dflt = defaults_of(cls)
            exp_statics = {
                name: (static_raw(typ, val) if val is not None else static_raw(typ, _member_index(typ, dflt[name])))
                for (name, typ, _), val in zip(STAT[s["ev"]], s["stat"])
            }
            got = (ss.source_name, ss.event_name, list(ss.fields), dict(ss.statics), tuple(ss.location))
            exp = (SOURCES[s["src"]], cls.event_name, exp_fields, exp_statics, (here, d.lines[i]))
            if got != exp:
                return res.fail(f"site {i} schema {got} expected {exp}")

        # ---------------- raw log
        raw = [(c, s, list(v)) for c, s, v in log.raw]
        if any(a[0] > b[0] for a, b in zip(raw, raw[1:])):
            return res.fail(f"raw log cycles are not non-decreasing: {[r[0] for r in raw]}")
        if sorted(raw) != sorted(exp_raw):
            miss = [r for r in exp_raw if r not in raw][:3]
            extra = [r for r in raw if r not in exp_raw][:3]
            return res.fail(f"raw log differs from model: missing {miss} unexpected {extra} ({len(raw)} vs {len(exp_raw)})")
        res.stats["events"] = len(raw)

        # ---------------- decoded events
        def expected_event(site_idx, vals):
            s = sites[site_idx]
            cls = POOL[s["ev"]]
            kw = {name: convert(typ, v) for (name, typ), v in zip(DYN[s["ev"]], vals)}
            dflt = defaults_of(cls)
            for (name, typ, _), val in zip(STAT[s["ev"]], s["stat"]):
                kw[name] = static_typed(typ, val) if val is not None else dflt[name]
            return cls(**kw)

        def check_decoded(decoded, what, raw_ref):
            if len(decoded) != len(raw_ref):
                return f"{what}: {len(decoded)} decoded events for {len(raw_ref)} raw records"
            for dv, (c, si, vals) in zip(decoded, raw_ref):
                ev = expected_event(si, vals)
                if not isinstance(dv, DecodedEvent) or dv.cycle != c or dv.site != sch.sites[si] or dv.event != ev:
                    return f"{what}: decoded {dv} expected cycle {c} site {si} event {ev}"
                if type(dv.event) is not type(ev):
                    return f"{what}: decoded event class {type(dv.event).__name__} expected {type(ev).__name__}"
                for f in dataclasses.fields(ev):
                    if type(getattr(dv.event, f.name)) is not type(getattr(ev, f.name)):
                        return (
                            f"{what}: field {f.name} decoded as {type(getattr(dv.event, f.name)).__name__} "
                            f"({getattr(dv.event, f.name)!r}) expected {getattr(ev, f.name)!r}"
                        )
                if dv.source_name != SOURCES[sites[si]["src"]]:
                    return f"{what}: source_name {dv.source_name}"
            return None

        dec = log.decoded()
        msg = check_decoded(dec, "EventLog.decoded", raw)
        if msg:
            return res.fail(msg)

        # ---------------- save / load / writer / reader
        p1 = os.path.join(tmpdir, "saved.jsonl")
        p2 = os.path.join(tmpdir, "streamed.jsonl")
        log.save(p1)
        loaded = EventLog.load(p1)
        if loaded.schema != sch:
            return res.fail(f"schema changed by save/load: {loaded.schema} vs {sch}")
        if [(c, s, list(v)) for c, s, v in loaded.raw] != raw:
            return res.fail("raw records changed by save/load")
        msg = check_decoded(loaded.decoded(), "loaded.decoded", raw)
        if msg:
            return res.fail(msg)
        with EventLogWriter(p2, sch) as wr:
            for c, s, v in raw:
                wr.emit_raw(c, s, v)
        for path, what in ((p1, "EventLogReader(saved)"), (p2, "EventLogReader(streamed)")):
            rd = EventLogReader(path)
            if rd.schema != sch:
                return res.fail(f"{what}: schema differs")
            msg = check_decoded(list(rd), what, raw)
            if msg:
                return res.fail(msg)
            if list(rd) != dec:
                return res.fail(f"{what}: events differ from EventLog.decoded()")

        # ---------------- generated-design sampler
        hs = box.get("handles", {})
        name_map = SignalDict()
        for h, sg in hs.items():
            name_map[sg] = h
        gen = _collect(wrapper, name_map, sch)
        gen = GeneratedEvLog.from_dict(json.loads(json.dumps(gen.to_dict())))
        if gen.schema.sites != sch.sites:
            return res.fail("GeneratedEvLog schema differs from the captured schema")
        for packed in (True, False):
            g = gen if packed else dataclasses.replace(gen, triggers_location=None)
            if packed and sites and enabled and g.triggers_location is None:
                return res.fail("generated design with sites has no packed trigger vector")
            cur = {}
            reads = [0]

            def resolve(handle):
                key = tuple(handle)
                if key not in hs:
                    raise KeyError(f"unknown handle {handle}")

                def read():
                    reads[0] += 1
                    return cur[key]

                return read

            smp = GeneratedEvLogSampler(g, resolve)
            sink = EventLog(sch)
            for cn, tr in enumerate(trace):
                cur.clear()
                cur.update(tr)
                smp.sample(cn, sink)
            got = [(c, s, list(v)) for c, s, v in sink.raw]
            if sorted(got) != sorted(exp_raw):
                miss = [r for r in exp_raw if r not in got][:3]
                extra = [r for r in got if r not in exp_raw][:3]
                return res.fail(
                    f"GeneratedEvLogSampler ({'packed' if packed else 'per-site'} triggers): missing {miss} unexpected {extra}"
                )
            msg = check_decoded(sink.decoded(), f"sampler({'packed' if packed else 'per-site'})", got)
            if msg:
                return res.fail(msg)

        # ---------------- EventConsumer
        cons = case["consumer"]
        base_h = [i for i in cons["base"]]
        der_h = [i for i in cons["derived"] if i not in base_h]

        def mk(tag):
            def h(self, rec):
                self.calls.append((tag, rec))

            return h

        def on_unhandled(self, rec):
            self.calls.append(("unhandled", rec))

        Base = type(
            "Base",
            (EventConsumer,),
            {f"on_b{i}": handles(POOL[i])(mk(POOL[i].event_name)) for i in base_h} | {"on_unhandled": on_unhandled},
        )
        Derived = type("Derived", (Base,), {f"on_d{i}": handles(POOL[i])(mk(POOL[i].event_name)) for i in der_h})
        keys = cons["shuffle"]
        order = sorted(range(len(dec)), key=lambda i: (keys[i % len(keys)] * 7919 + i * 31) % 1009)
        shuffled = [dec[i] for i in order]
        for cls_c, handled in ((Derived, base_h + der_h), (Base, base_h)):
            c = cls_c()
            c.calls = []
            c.run(iter(shuffled))
            cyc_seq = [rec.cycle for _, rec in c.calls]
            if cyc_seq != sorted(cyc_seq):
                return res.fail(f"EventConsumer dispatched out of cycle order: {cyc_seq}")
            if sorted(id(r) for _, r in c.calls) != sorted(id(r) for r in shuffled):
                return res.fail(f"EventConsumer dispatched {len(c.calls)} records for {len(shuffled)} given")
            names = {POOL[i].event_name for i in handled}
            for tag, rec in c.calls:
                want = rec.event.event_name if rec.event.event_name in names else "unhandled"
                if tag != want:
                    return res.fail(f"EventConsumer sent a {rec.event.event_name} record to {tag}, expected {want}")
        if any(a.cycle > b.cycle for a, b in zip(shuffled, shuffled[1:])):
            res.labels.append("consumer_reordered")
        if any(r.event.event_name not in {POOL[i].event_name for i in base_h + der_h} for r in dec):
            res.labels.append("consumer_unhandled")

        for k, v in flags.items():
            if v and enabled:
                res.labels.append(k)
        res.nontrivial = enabled and flags["two_sites_one_cycle"] and (flags["signed_negative"] or flags["enum_field"])
        return res
    finally:
        os.chdir(old_cwd)
        if saved_env is None:
            os.environ.pop("__TRANSACTRON_EVLOG", None)
        else:
            os.environ["__TRANSACTRON_EVLOG"] = saved_env
        shutil.rmtree(tmpdir, ignore_errors=True)


def _member_index(typ, v):
    return list(typ).index(v) if isinstance(v, enum.Enum) else v


def _collect(wrapper, name_map, sch):
    from transactron.evlog import EventSiteLocation, GeneratedEvLog

    if wrapper.evlog_records:
        return wrapper.collect_evlog(name_map)
    return GeneratedEvLog(schema=sch, site_locations=[EventSiteLocation(trigger=[], fields=[]) for _ in []])
