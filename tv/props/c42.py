"""C42 - DependencyManager keys behave as documented (pure python, history of add/get operations vs. a dict model)."""

from dataclasses import dataclass

import hypothesis.database  # noqa: F401  (otherwise imported lazily by hypothesis, once per forked worker)
from hypothesis import strategies as st

from tv.core import Result, setup_paths

setup_paths()

from transactron.lib.dependencies import UnifierKey  # noqa: E402
from transactron.utils.dependencies import (  # noqa: E402
    DependencyContext,
    DependencyKey,
    DependencyManager,
    ListKey,
    SimpleKey,
)

ID = "C42"
ENGINE = "C"
TECHNIQUE = "model-based testing of a python API (operation list interpreted against a dict model)"
RULE = (
    "case = list of 3..40 operations {op add|get|opt, manager 0|1, key class (13 classes: SimpleKey plain / "
    "empty_valid+default / non-locking / non-caching, ListKey locking / non-locking / a twin class with equal fields, "
    "custom-combine keys cached|uncached x locking|non-locking, UnifierKey locking|non-locking with a stub "
    "unifier), key field value 0..1, dependency 0..5}; "
    "model = per manager dict key -> list of added dependencies + set of locking keys successfully read by "
    "get_dependency + set of keys whose lock state the documentation leaves open (failed get, get_optional only); "
    "non-trivial = the history contains get(success) - add(accepted) - get on one non-locking cached key, or an add "
    "after a successful get_dependency of a locking key, or a second dependency on a simple key followed by a get"
)
ASSUMPTIONS = [
    "keys are frozen dataclasses (as the DependencyKey docstring requires); key identity is dataclass equality",
    "a 'successful read' that must lock is a get_dependency call that returned a value; after a failed "
    "get_dependency or after get_optional_dependency only, both outcomes of a later add are accepted",
    "an error on a simple key with >= 2 dependencies may be raised at the second add or at the get "
    "(the docstring only says 'an error is raised')",
    "cache=False is read as 'combine runs on every successful get' (what the parameter description and "
    "test_dependency_key.test_key_cache say)",
    "default values are never None (get_dependency documents None from get_optional_dependency as 'not provided')",
]


# --------------------------------------------------------------------------------------------- key pool

COMBINE_LOG: list = []  # (key, tuple(data)) appended by the custom-combine keys


class _StubUnifier:
    def __init__(self, methods):
        self.methods = list(methods)
        self.method = ("unified", tuple(methods))


@dataclass(frozen=True)
class SimplePlain(SimpleKey[int]):
    n: int = 0


@dataclass(frozen=True)
class SimpleDefault(SimpleKey[int]):
    n: int = 0
    empty_valid = True
    default_value = -7


@dataclass(frozen=True)
class SimpleDefaultNoLock(SimpleKey[int]):
    n: int = 0
    empty_valid = True
    default_value = -9
    lock_on_get = False


@dataclass(frozen=True)
class SimpleNoLockNoCache(SimpleKey[int]):
    n: int = 0
    lock_on_get = False
    cache = False


@dataclass(frozen=True)
class ListLock(ListKey[int]):
    n: int = 0


@dataclass(frozen=True)
class ListNoLock(ListKey[int]):
    n: int = 0
    lock_on_get = False


@dataclass(frozen=True)
class ListLockTwin(ListKey[int]):
    """Same fields as ListLock - a different key nevertheless."""

    n: int = 0


class _TupleCombine(DependencyKey[int, tuple]):
    def combine(self, data):
        COMBINE_LOG.append((self, tuple(data)))
        return ("T", tuple(data))


@dataclass(frozen=True)
class TupleCachedNoLock(_TupleCombine):
    n: int = 0
    lock_on_get = False
    empty_valid = True


@dataclass(frozen=True)
class TupleCachedLock(_TupleCombine):
    n: int = 0


@dataclass(frozen=True)
class TupleUncached(_TupleCombine):
    n: int = 0
    cache = False
    lock_on_get = False


@dataclass(frozen=True)
class TupleUncachedLock(_TupleCombine):
    n: int = 0
    cache = False
    empty_valid = True


@dataclass(frozen=True)
class UniKey(UnifierKey, unifier=_StubUnifier):
    n: int = 0


@dataclass(frozen=True)
class UniKeyNoLock(UnifierKey, unifier=_StubUnifier):
    n: int = 0
    lock_on_get = False


KEY_CLASSES = [
    SimplePlain,
    SimpleDefault,
    SimpleDefaultNoLock,
    SimpleNoLockNoCache,
    ListLock,
    ListNoLock,
    ListLockTwin,
    TupleCachedNoLock,
    TupleCachedLock,
    TupleUncached,
    TupleUncachedLock,
    UniKey,
    UniKeyNoLock,
]
KEY_NAMES = [c.__name__ for c in KEY_CLASSES]


def budget(tier):
    return dict(examples=2000, seconds=40) if tier == "quick" else dict(examples=20000, seconds=400)


@st.composite
def strategy(draw, tier="quick"):
    hi = 24 if tier == "quick" else 40
    # a case concentrates on a few keys so that add/get sequences on ONE key get long enough
    nk = draw(st.integers(1, 4))
    keys = [
        [draw(st.integers(0, len(KEY_CLASSES) - 1)), draw(st.integers(0, 1)), draw(st.integers(0, 1))]
        for _ in range(nk)
    ]
    w_add = draw(st.integers(1, 4))
    n = draw(st.integers(3, hi))
    ops = []
    for _ in range(n):
        k = keys[draw(st.integers(0, nk - 1))]
        r = draw(st.integers(0, w_add + 2))
        if r < w_add:
            ops.append({"op": "add", "m": k[2], "k": KEY_NAMES[k[0]], "n": k[1], "v": draw(st.integers(0, 5))})
        else:
            ops.append({"op": "get" if r < w_add + 2 else "opt", "m": k[2], "k": KEY_NAMES[k[0]], "n": k[1]})
    return {"ops": ops}


# --------------------------------------------------------------------------------------------- model


def _kind(cls):
    if issubclass(cls, SimpleKey):
        return "simple"
    if issubclass(cls, ListKey):
        return "list"
    if issubclass(cls, UnifierKey):
        return "unifier"
    return "tuple"


def _expected(cls, deps):
    """('value', v) | ('error',) | ('unifier',) - what a get must produce for the modelled dependency list."""
    kind = _kind(cls)
    n = len(deps)
    if n == 0 and not cls.empty_valid:
        return ("missing",)
    if kind == "simple":
        if n == 0:
            return ("value", cls.default_value)
        if n == 1:
            return ("value", deps[0])
        return ("error",)
    if kind == "list":
        return ("value", list(deps))
    if kind == "tuple":
        return ("value", ("T", tuple(deps)))
    return ("unifier",)


def _check_unifier(val, deps):
    """None if `val` is an acceptable UnifierKey result for `deps` (n >= 1)."""
    if not isinstance(val, tuple) or len(val) != 2:
        return f"unifier key returned {val!r}, expected (method, unifiers)"
    method, unis = val
    unis = list(unis)
    if not unis:
        if len(deps) != 1 or method != deps[0]:
            return f"unifier key returned {method!r} without unifier for dependencies {deps}"
        return None
    if len(unis) != 1 or not isinstance(unis[0], _StubUnifier):
        return f"unifier key returned unifiers {unis!r}"
    if unis[0].methods != list(deps):
        return f"unifier built from {unis[0].methods}, dependencies are {deps}"
    if method != unis[0].method:
        return "returned method is not the unifier's method"
    return None


def run_case(case) -> Result:
    res = Result()
    labels = set()
    del COMBINE_LOG[:]
    mgrs = [DependencyManager(), DependencyManager()]
    deps: list[dict] = [{}, {}]  # key -> list
    must_lock: list[set] = [set(), set()]  # locking keys successfully read by get_dependency
    may_lock: list[set] = [set(), set()]  # lock state left open by the documentation
    # cache bookkeeping for custom-combine keys: key -> "combine already ran since the last accepted add"
    combined: list[dict] = [{}, {}]
    succ_get: list[dict] = [{}, {}]  # non-locking cached key -> phase 1 = got, 2 = got+added
    nt = False

    for i, op in enumerate(case["ops"]):
        cls = KEY_CLASSES[KEY_NAMES.index(op["k"])]
        key = cls(op["n"])
        mi = op["m"]
        dm = mgrs[mi]
        cur = deps[mi].setdefault(key, [])
        kind = _kind(cls)
        where = f"op {i} {op['op']} {key!r} on manager {mi}"
        labels.add(kind)

        if op["op"] == "add":
            try:
                with DependencyContext(dm):
                    DependencyContext.get().add_dependency(key, op["v"])
                raised = None
            except Exception as e:  # noqa
                raised = e
            if key in must_lock[mi]:
                labels.add("add-after-locking-get")
                nt = True
                if raised is None:
                    return res.fail(f"{where}: key was read by get_dependency and locks on get, but add was accepted")
                continue
            if raised is not None:
                if key in may_lock[mi]:
                    labels.add("add-after-failed-or-optional-get:raised")
                    continue
                if kind == "simple" and len(cur) >= 1:
                    labels.add("simple-second-add:raised")
                    continue
                return res.fail(f"{where}: add raised {type(raised).__name__}: {raised} on a key that is not locked")
            if key in may_lock[mi]:
                labels.add("add-after-failed-or-optional-get:accepted")
            cur.append(op["v"])
            combined[mi][key] = False
            if succ_get[mi].get(key) == 1:
                succ_get[mi][key] = 2
            if not cls.lock_on_get and key in succ_get[mi]:
                labels.add("add-after-get-nonlocking")
            continue

        # ---- get / get_optional
        exp = _expected(cls, cur)
        n_log = len(COMBINE_LOG)
        try:
            val = dm.get_dependency(key) if op["op"] == "get" else dm.get_optional_dependency(key)
            raised = None
        except Exception as e:  # noqa
            val, raised = None, e
        ncomb = len(COMBINE_LOG) - n_log
        ok = False
        if exp[0] == "missing":
            labels.add("get-missing")
            if op["op"] == "get":
                if not isinstance(raised, KeyError):
                    return res.fail(f"{where}: no dependency and empty_valid=False: expected KeyError, got {val!r}")
            else:
                if raised is not None or val is not None:
                    return res.fail(f"{where}: no dependency: get_optional must return None, got {val!r} / {raised!r}")
        elif exp[0] == "error":
            labels.add("simple-multiple")
            nt = True
            if raised is None and not (op["op"] == "opt" and val is None):
                return res.fail(f"{where}: simple key holds {cur} but get returned {val!r} instead of an error")
        else:
            if raised is not None:
                return res.fail(f"{where}: raised {type(raised).__name__}: {raised}; model dependencies {cur}")
            if exp[0] == "value":
                if val != exp[1] or type(val) is not type(exp[1]):
                    return res.fail(f"{where}: returned {val!r}, expected {exp[1]!r} (dependencies {cur})")
                if kind == "simple" and not cur:
                    labels.add("simple-default")
                if kind == "list":
                    labels.add("list-empty" if not cur else f"list-len{min(len(cur), 3)}")
            else:
                msg = _check_unifier(val, cur)
                if msg:
                    return res.fail(f"{where}: {msg}")
                labels.add("unifier-single" if len(cur) == 1 else "unifier-many")
            ok = True
        if kind == "tuple" and ok:
            # caching as documented: cached -> combine at most once between adds; uncached -> on every get
            if any(k != key or d != tuple(cur) for k, d in COMBINE_LOG[n_log:]):
                return res.fail(f"{where}: combine called with {COMBINE_LOG[n_log:]}, dependencies are {cur}")
            if cls.cache:
                if combined[mi].get(key) and ncomb:
                    return res.fail(f"{where}: cache=True but combine ran again without an intervening add")
                if ncomb > 1:
                    return res.fail(f"{where}: combine ran {ncomb} times in one get")
                if combined[mi].get(key):
                    labels.add("cache-hit")
            else:
                if ncomb != 1:
                    return res.fail(f"{where}: cache=False but combine ran {ncomb} times in this get")
                labels.add("uncached-recombine")
            combined[mi][key] = True
        # lock bookkeeping
        if cls.lock_on_get:
            if ok and op["op"] == "get":
                must_lock[mi].add(key)
            else:
                may_lock[mi].add(key)
        elif ok:
            if cls.cache:
                if succ_get[mi].get(key) == 2:
                    labels.add("get-add-get-nonlocking-cached")
                    nt = True
                succ_get[mi][key] = 1
            else:
                succ_get[mi].setdefault(key, 0)

    # the managers must be independent and the context stack balanced
    if DependencyContext.stack:
        return res.fail("DependencyContext stack not empty after balanced enter/exit")
    res.labels = sorted(labels)
    res.nontrivial = nt
    res.stats["ops"] = len(case["ops"])
    return res
