"""C36 - bit-manipulation helpers of transactron.utils.amaranth_ext.functions compute their documented functions."""

from functools import reduce

from hypothesis import strategies as st

from tv.comb import FULL_SPACE, Spec, drawn_vals, run_spec, space_size, to_signed
from tv.core import Result

ID = "C36"
ENGINE = "C"
EXHAUSTIVE = True  # refers to the enumerated part listed in RULE; the Hypothesis part samples larger widths
TECHNIQUE = "exhaustive enumeration of small widths + property-based sampling of larger widths against python-int oracles"
RULE = (
    "case = (helper name, width/size parameters[, drawn valuations]); each helper is instantiated in an amaranth Module "
    "(out.eq(f(inputs))) and evaluated in ONE simulation for ALL input valuations when the input space is <= 2^14 points, "
    "else for the 48-128 edge-biased valuations drawn into the case (cases produced by Hypothesis in the quick tier already carry drawn valuations above 2^11 points).  Enumerated completely (exhaustive=true refers to "
    "this list): the nine unary helpers for widths 1-7; cyclic_mask for bits 1-16 (all start,end < bits); mod_incr for "
    "mod 1-40; mod_add for mod 1-10, every max_incr <= mod, signal and constant increment (all sig < mod, incr <= "
    "max_incr); sum/or/and/min/max_value over two operands of equal width 1-7, signed and unsigned, (all pairs), over "
    "three operands of widths <= 4 in every bundle form, and the 0-/1-operand corner cases; mux over plain operands of "
    "widths 1-3 in all signedness combinations plus struct/enum/constant operands; switch_value over a fixed list of "
    "key layouts.  Hypothesis: the same helpers with widths <= 24, lists of 1-6 operands of mixed widths, mod <= 1000. "
    "non-trivial = at least two distinct expected outputs were compared in the case (the helper is observed as a "
    "non-constant function); labels count the edge classes (zero input, wrap-around, start>end, ...)"
)
ASSUMPTIONS = [
    "amaranth.sim.Simulator is the trusted execution model",
    "count_trailing_zeros(0) = count_leading_zeros(0) = width (no docstring; the tests and PriorityEncoder rely on it)",
    "caller domains: mod_incr/mod_add with sig < mod and incr <= max_incr <= mod (incr = 0 included, the allocators "
    "use it); cyclic_mask with start, end < bits; min/max/sum/or/and over lists of one signedness",
    "outputs the docstrings leave undefined are not compared: mask_after/mask_until_first_set_bit at input 0, "
    "switch_value without default when no key matches, min/max of an empty list",
]

UNARY = [
    "popcount",
    "count_trailing_zeros",
    "count_leading_zeros",
    "extract_lowest_set_bit",
    "clear_lowest_set_bit",
    "mask_from_first_set_bit",
    "mask_after_first_set_bit",
    "mask_until_first_set_bit",
    "mask_before_first_set_bit",
]
REDUCE = ["sum_value", "or_value", "and_value", "min_value", "max_value"]
FORMS = ["flat", "list", "nested", "dict", "struct", "array"]


def budget(tier):
    return dict(examples=45, seconds=40) if tier == "quick" else dict(examples=600, seconds=400)


# ------------------------------------------------------------------------------------------------ oracles (python ints)


def _ctz(v, w):
    return w if v == 0 else (v & -v).bit_length() - 1


def _unary_oracle(name, v, w):
    full = (1 << w) - 1
    z = _ctz(v, w)
    if name == "popcount":
        return bin(v).count("1")
    if name == "count_trailing_zeros":
        return z
    if name == "count_leading_zeros":
        return w - v.bit_length()
    if name == "extract_lowest_set_bit":  # "least significant set bit ... If no bits are set, returns 0"
        return (1 << z) if v else 0
    if name == "clear_lowest_set_bit":  # "Clears the least significant set bit ... If no bits are set, returns 0"
        return v & ~(1 << z) if v else 0
    if name == "mask_from_first_set_bit":  # "(-1 << ctz(value))[:len(value)]"
        return sum(1 << i for i in range(w) if i >= z)
    if name == "mask_after_first_set_bit":  # lowest set bit exclusive .. length; nothing said about 0
        return sum(1 << i for i in range(w) if i > z) if v else None
    if name == "mask_until_first_set_bit":  # bit 0 .. lowest set bit inclusive; nothing said about 0
        return sum(1 << i for i in range(w) if i <= z) if v else None
    if name == "mask_before_first_set_bit":  # "extract_lowest_set_bit(value) - 1"
        return ((1 << z) - 1) if v else full
    raise KeyError(name)


def _reduce_oracle(fn, vals):
    if fn == "sum_value":
        return sum(vals)
    if fn == "or_value":
        return reduce(lambda a, b: a | b, vals, 0)
    if fn == "and_value":
        return reduce(lambda a, b: a & b, vals, -1)
    if not vals:
        return None
    return min(vals) if fn == "min_value" else max(vals)


# ------------------------------------------------------------------------------------------------ specs


def _F():
    import transactron.utils.amaranth_ext.functions as F

    return F


def _enum():
    from amaranth.lib import enum

    global _ENUM
    try:
        return _ENUM
    except NameError:
        pass

    class Quad(enum.Enum, shape=2):
        A = 0
        B = 1
        C = 2
        D = 3

    _ENUM = Quad
    return Quad


def _norm_keys(keys, tw):
    """Distinct keys, first occurrence wins (cases stay valid under shrinking)."""
    seen, out = set(), []
    for grp in keys:
        g = []
        for k in grp:
            k %= 1 << tw
            if k not in seen:
                seen.add(k)
                g.append(k)
        if g:
            out.append(g)
    return out


def make_spec(t, p) -> Spec:
    from amaranth import Cat, Module, Signal, signed, unsigned
    from amaranth.lib import data

    if t in UNARY:
        w = p["w"]

        def build():
            m, x = Module(), Signal(w, name="x")
            return m, [("x", x)], [(t, getattr(_F(), t)(x))]

        def classify(vec):
            v = vec[0]
            if v == 0:
                yield "in=0"
            elif v & (v - 1) == 0:
                yield "in=single-bit"
            if v == (1 << w) - 1:
                yield "in=all-ones"

        return Spec(build, [1 << w], lambda vec: (_unary_oracle(t, vec[0], w),), classify)

    if t == "cyclic_mask":
        n = p["bits"]

        def build():
            m, s, e = Module(), Signal(range(n), name="start"), Signal(range(n), name="end")
            return m, [("start", s), ("end", e)], [("mask", _F().cyclic_mask(n, s, e))]

        def oracle(vec):
            a, b = vec
            return (sum(1 << i for i in range(n) if (a <= i <= b if a <= b else (i >= a or i <= b))),)

        def classify(vec):
            a, b = vec
            yield "start>end" if a > b else ("start==end" if a == b else "start<end")
            if (b + 1) % n == a:
                yield "full-mask"

        return Spec(build, [n, n], oracle, classify)

    if t == "mod_incr":
        mod = p["mod"]

        def build():
            m, s = Module(), Signal(range(mod), name="sig")
            return m, [("sig", s)], [("o", _F().mod_incr(s, mod))]

        return Spec(build, [mod], lambda vec: ((vec[0] + 1) % mod,), lambda vec: ["wrap"] if vec[0] == mod - 1 else [])

    if t == "mod_add":
        mod, mx, const = p["mod"], min(p["max_incr"], p["mod"]), p["const"]

        def build():
            m, s = Module(), Signal(range(mod), name="sig")
            if const:
                return m, [("sig", s)], [("o", _F().mod_add(s, mod, mx, mx))]
            i = Signal(range(mx + 1), name="incr")
            return m, [("sig", s), ("incr", i)], [("o", _F().mod_add(s, mod, i, mx))]

        def inc(vec):
            return mx if const else vec[1]

        def classify(vec):
            tot = vec[0] + inc(vec)
            if tot == mod:
                yield "sum==mod"
            elif tot > mod:
                yield "wrap"
            if inc(vec) == 0:
                yield "incr=0"
            if inc(vec) == mx:
                yield "incr=max"

        return Spec(build, [mod] if const else [mod, mx + 1], lambda vec: ((vec[0] + inc(vec)) % mod,), classify)

    if t in REDUCE:
        widths, sg, form = p["widths"], p["signed"], p["form"]
        n = len(widths)
        if form == "array" and len(set(widths)) > 1:
            form = "struct"
        if n == 0:
            form = "flat"
        shapes = [signed(w) if sg else unsigned(w) for w in widths]

        def build():
            m = Module()
            sigs = [Signal(sh, name=f"v{i}") for i, sh in enumerate(shapes)]
            fn = getattr(_F(), t)
            if form == "flat":
                out = fn(*sigs)
            elif form == "list":
                out = fn(list(sigs))
            elif form == "nested":
                out = fn(sigs[0], list(sigs[1:])) if n > 1 else fn([[sigs[0]]])
            elif form == "dict":
                out = fn({f"k{i}": s for i, s in enumerate(sigs)})
            elif form == "struct":
                out = fn(data.StructLayout({f"f{i}": sh for i, sh in enumerate(shapes)})(Cat(*sigs)))
            else:
                out = fn(data.ArrayLayout(shapes[0], n)(Cat(*sigs)))
            return m, [(f"v{i}", s) for i, s in enumerate(sigs)], [(t, out)]

        def vals_of(vec):
            return [to_signed(r, w) if sg else r for r, w in zip(vec, widths)]

        def classify(vec):
            vs = vals_of(vec)
            if len(set(vs)) < len(vs):
                yield "equal-operands"
            if any(v < 0 for v in vs):
                yield "negative-operand"
            if any(v == 0 for v in vs):
                yield "zero-operand"

        return Spec(build, [1 << w for w in widths], lambda vec: (_reduce_oracle(t, vals_of(vec)),), classify)

    if t == "mux":
        kind, selw = p["kind"], p["selw"]
        (w1, s1), (w0, s0) = p["a"], p["b"]
        info = {}
        if kind == "plain":

            def build():
                m, sel = Module(), Signal(selw, name="sel")
                a = Signal(signed(w1) if s1 else unsigned(w1), name="val1")
                b = Signal(signed(w0) if s0 else unsigned(w0), name="val0")
                return m, [("sel", sel), ("val1", a), ("val0", b)], [("o", _F().mux(sel, a, b))]

            def oracle(vec):
                a = to_signed(vec[1], w1) if s1 else vec[1]
                b = to_signed(vec[2], w0) if s0 else vec[2]
                return (a if vec[0] else b,)

            return Spec(build, [1 << selw, 1 << w1, 1 << w0], oracle, lambda vec: ["sel>1"] if vec[0] > 1 else [])
        if kind == "const":
            c = to_signed(p["c"], w0) if s0 else p["c"] % (1 << w0)

            def build():
                m, sel = Module(), Signal(selw, name="sel")
                a = Signal(signed(w1) if s1 else unsigned(w1), name="val1")
                out = _F().mux(sel, a, c) if p["const_is_val0"] else _F().mux(sel, c, a)
                return m, [("sel", sel), ("val", a)], [("o", out)]

            def oracle(vec):
                a = to_signed(vec[1], w1) if s1 else vec[1]
                if p["const_is_val0"]:
                    return (a if vec[0] else c,)
                return (c if vec[0] else a,)

            return Spec(build, [1 << selw, 1 << w1], oracle)
        if kind in ("struct", "struct_const"):
            lay = data.StructLayout({"a": unsigned(w1), "b": signed(w0)})
            tot = w1 + w0
            craw = p["c"] % (1 << tot)

            def build():
                m, sel = Module(), Signal(selw, name="sel")
                a = Signal(lay, name="val1")
                if kind == "struct":
                    b = Signal(lay, name="val0")
                    out = _F().mux(sel, a, b)
                    ins = [("sel", sel), ("val1", a), ("val0", b)]
                else:
                    cdict = lay.const({"a": craw & ((1 << w1) - 1), "b": to_signed(craw >> w1, w0)})
                    out = _F().mux(sel, a, cdict) if p["const_is_val0"] else _F().mux(sel, cdict, a)
                    ins = [("sel", sel), ("val", a)]
                info["shape_ok"] = isinstance(out, data.View) and out.shape() == lay
                return m, ins, [("o", out)]

            def oracle(vec):
                if kind == "struct":
                    return (vec[1] if vec[0] else vec[2],)
                if p["const_is_val0"]:
                    return (vec[1] if vec[0] else craw,)
                return (craw if vec[0] else vec[1],)

            def static(_):
                return None if info.get("shape_ok") else "mux of struct views did not return a View of the same layout"

            rng = [1 << selw, 1 << tot] + ([1 << tot] if kind == "struct" else [])
            return Spec(build, rng, oracle, static=static)
        if kind == "enum":
            E = _enum()
            member = list(E)[p["c"] % 4]

            def build():
                m, sel = Module(), Signal(selw, name="sel")
                a = Signal(E, name="val")
                out = _F().mux(sel, a, member) if p["const_is_val0"] else _F().mux(sel, member, a)
                info["shape_ok"] = _F().shape_of(out) == E
                return m, [("sel", sel), ("val", a)], [("o", out)]

            def oracle(vec):
                if p["const_is_val0"]:
                    return (vec[1] if vec[0] else member.value,)
                return (member.value if vec[0] else vec[1],)

            def static(_):
                return None if info.get("shape_ok") else "mux of enum operands did not keep the enum shape"

            return Spec(build, [1 << selw, 4], oracle, static=static)
        raise KeyError(kind)

    if t == "switch_value":
        tw, sg, kind = p["tw"], p["signed"], p["kind"]
        keys = _norm_keys(p["keys"], tw)
        ncases = len(keys) + (1 if p["default"] else 0)
        widths = [p["vw"][i % len(p["vw"])] for i in range(ncases)]
        if kind == "struct":
            widths = [max(2, widths[0])] * ncases
        info = {}

        def build():
            m, test = Module(), Signal(tw, name="test")
            if kind == "struct":
                lay = data.StructLayout({"lo": unsigned(1), "hi": signed(widths[0] - 1)})
                vals = [Signal(lay, name=f"v{i}") for i in range(ncases)]
            else:
                vals = [Signal(signed(w) if sg else unsigned(w), name=f"v{i}") for i, w in enumerate(widths)]
            cases = [((g[0] if len(g) == 1 else tuple(g)), vals[i]) for i, g in enumerate(keys)]
            if p["default"]:
                cases.append((None, vals[-1]))
            out = _F().switch_value(test, cases)
            info["shape_ok"] = kind != "struct" or (isinstance(out, data.View) and out.shape() == lay)
            return m, [("test", test)] + [(f"v{i}", v) for i, v in enumerate(vals)], [("o", out)]

        def conv(raw, w):
            return to_signed(raw, w) if (sg and kind != "struct") else raw

        def oracle(vec):
            for i, g in enumerate(keys):
                if vec[0] in g:
                    return (conv(vec[1 + i], widths[i]),)
            if p["default"]:
                return (conv(vec[ncases], widths[-1]),)
            return (None,)

        def classify(vec):
            for i, g in enumerate(keys):
                if vec[0] in g:
                    return ["key-match" if len(g) == 1 else "tuple-key-match"]
            return ["default" if p["default"] else "no-match-undefined"]

        def static(_):
            return None if info.get("shape_ok") else "switch_value over struct views did not return a View of the layout"

        return Spec(build, [1 << tw] + [1 << w for w in widths], oracle, classify, static=static)

    raise KeyError(t)


# ------------------------------------------------------------------------------------------------ case lists


def _case(t, **p):
    return {"t": t, "p": p, "vals": None}


def enumerate_cases(tier):
    cases = []
    for w in range(1, 8):
        for name in UNARY:
            cases.append(_case(name, w=w))
    for n in range(1, 17):
        cases.append(_case("cyclic_mask", bits=n))
    for mod in range(1, 41):
        cases.append(_case("mod_incr", mod=mod))
    for mod in range(1, 11):
        for mx in range(0, mod + 1):
            cases.append(_case("mod_add", mod=mod, max_incr=mx, const=False))
            cases.append(_case("mod_add", mod=mod, max_incr=mx, const=True))
    for fn in REDUCE:
        for sg in (False, True):
            for w in range(1, 8):
                cases.append(_case(fn, widths=[w, w], signed=sg, form="flat"))
            for form in FORMS:
                for widths in ([1, 2, 3], [4, 4, 4], [3, 1, 4]):
                    cases.append(_case(fn, widths=widths, signed=sg, form=form))
            for w in (1, 3, 8):
                cases.append(_case(fn, widths=[w], signed=sg, form="flat"))
                cases.append(_case(fn, widths=[w], signed=sg, form="nested"))
        if fn in ("sum_value", "or_value", "and_value"):
            cases.append(_case(fn, widths=[], signed=False, form="flat"))
    for w1 in range(1, 4):
        for w0 in range(1, 4):
            for s1 in (False, True):
                for s0 in (False, True):
                    for selw in (1, 2):
                        cases.append(_case("mux", kind="plain", selw=selw, a=[w1, s1], b=[w0, s0], c=0, const_is_val0=True))
    for c0 in (True, False):
        for c in (0, 5, 10, 15):
            cases.append(_case("mux", kind="const", selw=1, a=[3, False], b=[4, True], c=c, const_is_val0=c0))
            cases.append(_case("mux", kind="struct_const", selw=1, a=[2, False], b=[2, True], c=c, const_is_val0=c0))
            cases.append(_case("mux", kind="enum", selw=1, a=[2, False], b=[2, False], c=c, const_is_val0=c0))
    for selw in (1, 2):
        cases.append(_case("mux", kind="struct", selw=selw, a=[2, False], b=[3, True], c=0, const_is_val0=True))
    for keys in ([[0]], [[1], [0]], [[2], [0, 3]], [[3, 1], [2], [0]], [[1, 2, 3]]):
        for default in (False, True):
            for sg in (False, True):
                cases.append(_case("switch_value", tw=2, keys=keys, default=default, vw=[2, 3, 1], signed=sg, kind="plain"))
            cases.append(_case("switch_value", tw=2, keys=keys, default=default, vw=[3], signed=False, kind="struct"))
    for c in cases:
        assert space_size(make_spec(c["t"], c["p"]).ranges) <= FULL_SPACE, c
    return cases


@st.composite
def strategy(draw, tier="quick"):
    group = draw(st.sampled_from(["unary", "unary", "cyclic", "mod_incr", "mod_add", "mod_add", "reduce", "reduce",
                                  "reduce", "mux", "switch"]))
    if group == "unary":
        t, p = draw(st.sampled_from(UNARY)), {"w": draw(st.integers(8, 24))}
    elif group == "cyclic":
        t, p = "cyclic_mask", {"bits": draw(st.integers(17, 24) | st.sampled_from([31, 32, 33]))}
    elif group == "mod_incr":
        t, p = "mod_incr", {"mod": draw(st.integers(41, 1000) | st.sampled_from([64, 128, 256, 255, 257]))}
    elif group == "mod_add":
        mod = draw(st.integers(11, 1000) | st.sampled_from([16, 32, 64, 17, 31, 33]))
        mx = draw(st.integers(0, min(mod, 24)) | st.just(min(mod, 24)))
        t, p = "mod_add", {"mod": mod, "max_incr": mx, "const": draw(st.booleans())}
    elif group == "reduce":
        t = draw(st.sampled_from(REDUCE))
        widths = draw(st.lists(st.integers(1, 24), min_size=1, max_size=6))
        if draw(st.integers(0, 3)) == 0:
            widths = [widths[0]] * len(widths)
        p = {"widths": widths, "signed": draw(st.booleans()), "form": draw(st.sampled_from(FORMS))}
    elif group == "mux":
        kind = draw(st.sampled_from(["plain", "plain", "const", "struct", "struct_const", "enum"]))
        p = {
            "kind": kind,
            "selw": draw(st.integers(1, 3)),
            "a": [draw(st.integers(1, 12)), draw(st.booleans())],
            "b": [draw(st.integers(1, 12)), draw(st.booleans())],
            "c": draw(st.integers(0, (1 << 24) - 1)),
            "const_is_val0": draw(st.booleans()),
        }
        t = "mux"
    else:
        tw = draw(st.integers(1, 4))
        perm = draw(st.permutations(list(range(1 << tw))))
        nk = draw(st.integers(1, min(5, len(perm))))
        keys, pos = [], 0
        for _ in range(nk):
            k = draw(st.integers(1, 3))
            if perm[pos : pos + k]:
                keys.append(list(perm[pos : pos + k]))
            pos += k
        t = "switch_value"
        p = {
            "tw": tw,
            "keys": keys,
            "default": draw(st.booleans()),
            "vw": draw(st.lists(st.integers(1, 10), min_size=1, max_size=4)),
            "signed": draw(st.booleans()),
            "kind": draw(st.sampled_from(["plain", "plain", "struct"])),
        }
    spec = make_spec(t, p)
    hi = 128 if tier == "thorough" else 96
    vals = draw(drawn_vals(spec.ranges, 48, hi, FULL_SPACE if tier == "thorough" else 1 << 11))
    return {"t": t, "p": p, "vals": vals}


def run_case(case) -> Result:
    t, p = case["t"], case["p"]
    res = Result(labels=[t])
    if t in REDUCE:
        form = p["form"] if p["widths"] else "flat"
        if form == "array" and len(set(p["widths"])) > 1:
            form = "struct"
        res.labels += [f"n={len(p['widths'])}", "signed" if p["signed"] else "unsigned", f"form={form}"]
    elif t in ("mod_add", "mod_incr"):
        res.labels.append("mod=pow2" if p["mod"] & (p["mod"] - 1) == 0 else "mod=non-pow2")
        if t == "mod_add":
            res.labels.append("incr=const" if p["const"] else "incr=signal")
    elif t == "mux":
        res.labels.append(f"mux:{p['kind']}")
    elif t == "switch_value":
        res.labels.append(f"switch:{p['kind']}")
    run_spec(res, f"{t}{p}", make_spec(t, p), case["vals"])
    return res
