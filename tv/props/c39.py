"""C39 - OneHotRoundRobin / RoundRobin arbiters grant validly and serve a continuously requesting input within
`count` cycles (bounded response on generated histories from reset)."""

import itertools

from hypothesis import strategies as st

from tv.comb import evaluate_seq
from tv.core import Result

ID = "C39"
ENGINE = "C"
EXHAUSTIVE = False  # the quantifier ranges over unbounded histories; only short ones are enumerated completely
TECHNIQUE = "model-free safety oracles (validity + bounded response) on request histories; complete enumeration of short histories"
RULE = (
    "case = (arbiter kind, count, request history from reset).  Hypothesis: count 1-6, 1-3 (thorough: 1-6) rounds of [a phase of 0-20 "
    "cycles with a drawn request density] followed by [a hold phase of count..count+4 cycles in which a drawn non-empty "
    "set of requesters is held high while the other bits keep toggling].  Enumerated: ALL histories of length 7 for "
    "count 1-2 and of length 5 for count 3 (grouped by their first request vector; histories are simulated back to "
    "back with a synchronous reset in between).  Every cycle is judged (validity) and every window of `count` "
    "consecutive cycles in which a requester stays high is judged (bounded response).  non-trivial = the history "
    "contains a window of `count` cycles in which at least two requesters are continuously high (competition during "
    "a hold); labels count idle cycles, full contention and held singles"
)
ASSUMPTIONS = [
    "amaranth.sim.Simulator and amaranth's ResetInserter are the trusted execution model",
    "fairness is checked as a bounded-response safety property on finite histories from reset, not as liveness",
    "OneHotRoundRobin: 'grants none' when requests = 0 is read as valid low (the raw grant keeps its last value, which "
    "is how the transaction scheduler uses it); RoundRobin.grant is only interpreted while valid is high, except for "
    "the documented 'does not change if there are no active requests'",
    "RoundRobin outputs are registered: grant/valid sampled in cycle t+1 answer the requests of cycle t",
]


def budget(tier):
    return dict(examples=150, seconds=40) if tier == "quick" else dict(examples=2500, seconds=400)


# ------------------------------------------------------------------------------------------------ oracle


def _judge(kind, count, hist, rows):
    """hist[t] = request vector applied in cycle t, rows[t] = (grant, valid) sampled in cycle t.  Returns an error
    message or None, plus the number of bounded-response windows checked."""
    n = len(hist)
    served = [[False] * n for _ in range(count)]  # served[i][t]: requester i is granted by the answer to cycle t
    if kind == "OneHotRoundRobin":
        for t, (req, (grant, valid)) in enumerate(zip(hist, rows)):
            if req == 0:
                if valid:
                    return f"cycle {t}: no requests but valid is high", 0
                continue
            if not valid:
                return f"cycle {t}: requests {req:0{count}b} present but valid is low", 0
            if grant == 0 or grant & (grant - 1):
                return f"cycle {t}: requests {req:0{count}b}: grant {grant:0{count}b} is not one-hot", 0
            if grant & ~req:
                return f"cycle {t}: grant {grant:0{count}b} goes to a non-requester (requests {req:0{count}b})", 0
            served[grant.bit_length() - 1][t] = True
    else:
        # rows has one more sample than hist (a trailing idle cycle shows the answer to the last request vector)
        for t, req in enumerate(hist):
            grant, valid = rows[t + 1]
            pgrant, pvalid = rows[t]
            if bool(valid) != (req != 0):
                return f"cycle {t}: requests {req:0{count}b} -> valid {valid} in the next cycle", 0
            if req == 0:
                if grant != pgrant:
                    return f"cycle {t}: no requests but grant changed {pgrant} -> {grant}", 0
                continue
            if grant >= count or not req >> grant & 1:
                return f"cycle {t}: requests {req:0{count}b} -> grant {grant} is not an active requester", 0
            served[grant][t] = True
            if pvalid and t > 0 and req & ~(1 << pgrant):
                # "Once it grants a request, if any other requests are active, it grants the next active request
                #  with a greater number, restarting from zero once it reaches the highest one."
                nxt = next(j % count for j in range(pgrant + 1, pgrant + count) if req >> (j % count) & 1)
                if grant != nxt:
                    return (f"cycle {t}: previous grant {pgrant}, requests {req:0{count}b}: next grant is {grant}, "
                            f"the next active request after {pgrant} is {nxt}"), 0
    windows = 0
    for i in range(count):
        run = 0
        for t, req in enumerate(hist):
            run = run + 1 if req >> i & 1 else 0
            if run >= count:
                windows += 1
                if not any(served[i][t - count + 1 : t + 1]):
                    return (f"requester {i} requested continuously in cycles {t - count + 1}..{t} ({count} cycles) "
                            f"without being granted"), windows
    return None, windows


def _classes(count, hist):
    full = (1 << count) - 1
    labs = set()
    if any(r == 0 for r in hist):
        labs.add("idle-cycle")
    if any(r == full for r in hist) and count > 1:
        labs.add("all-request-cycle")
    nt = False
    for t in range(len(hist) - count + 1):
        held = full
        for r in hist[t : t + count]:
            held &= r
        c = bin(held).count("1")
        if c >= 2:
            nt = True
            labs.add("hold>=2")
        elif c == 1:
            labs.add("hold=1")
        if c == count and count > 1:
            labs.add("hold=all")
    return labs, nt


def _build(kind, count):
    def build():
        import transactron.utils.amaranth_ext.elaboratables as E

        dut = E.OneHotRoundRobin(count) if kind == "OneHotRoundRobin" else E.RoundRobin(count=count)
        return dut, [("requests", dut.requests)], [("grant", dut.grant), ("valid", dut.valid)]

    return build


# ------------------------------------------------------------------------------------------------ cases


def enumerate_cases(tier):
    cases = []
    for kind in ("OneHotRoundRobin", "RoundRobin"):
        cases.append({"kind": kind, "count": 1, "all_len": 7, "prefix": []})
        for r0 in range(4):
            cases.append({"kind": kind, "count": 2, "all_len": 7, "prefix": [r0]})
        for r0 in range(8):
            cases.append({"kind": kind, "count": 3, "all_len": 5, "prefix": [r0]})
    return cases


@st.composite
def strategy(draw, tier="quick"):
    kind = draw(st.sampled_from(["OneHotRoundRobin", "RoundRobin"]))
    count = draw(st.sampled_from([1, 2, 3, 3, 4, 4, 5, 5, 6, 6]))
    full = (1 << count) - 1
    hist = []
    rounds = draw(st.integers(1, 3 if tier == "quick" else 6))
    for _ in range(rounds):
        dens = draw(st.integers(0, 8))
        for _ in range(draw(st.integers(0, 20))):
            hist.append(sum(1 << i for i in range(count) if draw(st.integers(0, 7)) < dens))
        hold = draw(st.integers(1, full))
        if draw(st.integers(0, 2)) == 0:
            hold |= draw(st.integers(1, full))
        dens = draw(st.integers(0, 8))
        for _ in range(count + draw(st.integers(0, 4))):
            hist.append(hold | sum(1 << i for i in range(count) if draw(st.integers(0, 7)) < dens))
    return {"kind": kind, "count": count, "hist": hist}


def run_case(case) -> Result:
    kind, count = case["kind"], case["count"]
    res = Result(labels=[kind, f"count={count}"])
    full = (1 << count) - 1
    if "hist" in case:
        hists = [[r & full for r in case["hist"]]]
        res.labels.append("drawn-history")
    else:
        free = case["all_len"] - len(case["prefix"])
        hists = [list(case["prefix"]) + list(tail) for tail in itertools.product(range(full + 1), repeat=free)]
        res.labels.append("all-short-histories")
    pad = [0] if kind == "RoundRobin" else []
    rows = evaluate_seq(_build(kind, count), [[(r,) for r in h + pad] for h in hists])
    labs, nt, windows = set(), False, 0
    for h, rw in zip(hists, rows):
        err, nwin = _judge(kind, count, h, rw)
        windows += nwin
        res.stats["cycles"] = res.stats.get("cycles", 0) + len(h)
        l2, n2 = _classes(count, h)
        labs |= l2
        nt = nt or n2
        if err is not None:
            res.labels.extend(sorted(labs))
            return res.fail(f"{kind}(count={count}) history {h}: {err}")
    res.stats["histories"] = len(hists)
    res.stats["windows_checked"] = windows
    res.labels.extend(sorted(labs))
    res.nontrivial = nt
    return res
