"""C12 - condition() picks one admissible branch."""

import itertools

from amaranth import *
from amaranth.sim import Simulator
from hypothesis import strategies as st

from tv.core import Result, setup_paths

setup_paths()

from transactron import Method, TModule, Transaction, def_method  # noqa: E402
from transactron.core import TransactronContextElaboratable  # noqa: E402
from transactron.lib.simultaneous import condition  # noqa: E402
from transactron.utils.dependencies import DependencyContext, DependencyManager  # noqa: E402

ID = "C12"
ENGINE = "A"
RULE = (
    "case = one condition() block: 1-4 branches with input conditions (overlap allowed), each branch calling a subset of "
    "1-4 methods with ready inputs (callees shared across branches), blocking/nonblocking x priority x explicit "
    "default, placed in a transaction (optionally also calling further methods) or in a single_caller method, "
    "optionally with a nested condition inside branch 0; all valuations of (parent ready, conditions, method ready "
    "inputs) are enumerated; oracle with a comb witness per branch: w_i => parent runs and c_i and callees(i) ready; "
    "sum w <= 1; w_default => no c_j; parent runs => some w_i unless nonblocking and no explicit default and no c_j; "
    "priority => w_i only if no earlier branch admissible; non-trivial = a valuation with >= 2 conditions true whose "
    "branches differ in callee readiness"
)
ASSUMPTIONS = ["amaranth.sim.Simulator is the trusted execution model"]
TECHNIQUE = "generated condition() shapes + exhaustive input valuations against the five predicates of the statement"


def budget(tier):
    return dict(examples=30, seconds=45) if tier == "quick" else dict(examples=400, seconds=420)


@st.composite
def strategy(draw, tier="quick"):
    nb = draw(st.integers(1, 4))
    nm = draw(st.integers(1, 4))
    spec = dict(
        nb=nb,
        nm=nm,
        nonblocking=draw(st.booleans()),
        priority=draw(st.booleans()),
        default=draw(st.booleans()),
        in_method=draw(st.integers(0, 2)) == 0,
    )
    # call chain transaction -> wrapper methods -> method holding the condition; each call may sit under an If(input)
    # (1) or carry enable_call=input (2)
    spec["chain"] = [draw(st.integers(0, 2)) for _ in range(draw(st.integers(1, 3)))] if spec["in_method"] else []
    spec["single_caller"] = draw(st.booleans())
    # further condition() blocks in the same body (callee-free, observed through probe methods): with two of them the
    # enclosing body and one branch of each block form a simultaneity group of four transactions
    # (at most one block of a body is prioritised: two prioritised blocks give the merged transactions contradictory
    # priorities, which the library rejects as cyclic - a limitation, not a statement of this property)
    spec["extra"] = []
    prio_used = spec["priority"]
    for _ in range(draw(st.sampled_from([0, 0, 1, 2]))):
        p = draw(st.booleans()) and not prio_used
        prio_used = prio_used or p
        spec["extra"].append(dict(nb=draw(st.integers(1, 2)), nonblocking=draw(st.booleans()), priority=p, default=draw(st.booleans())))
    spec["calls"] = [sorted(draw(st.sets(st.integers(0, nm - 1), max_size=nm))) for _ in range(nb + 1)]
    used = {k for cl in spec["calls"] for k in cl}
    free = [k for k in range(nm) if k not in used]
    spec["tcalls"] = free[:1] if (free and not spec["in_method"] and draw(st.booleans())) else []
    # nested condition inside branch 0, using methods not used elsewhere in branch 0 / by the parent
    spec["nested"] = None
    if draw(st.integers(0, 3)) == 0:
        avail = [k for k in range(nm) if k not in spec["calls"][0] and k not in spec["tcalls"]]
        nnb = draw(st.integers(1, 2))
        spec["nested"] = dict(
            nb=nnb,
            nonblocking=draw(st.booleans()),
            priority=draw(st.booleans()),
            calls=[sorted(draw(st.sets(st.sampled_from(avail), max_size=2))) if avail else [] for _ in range(nnb)],
        )
    # parallel blocks of one body may not both be prioritised (see above); the nested block counts for the main one
    prio_used = spec["priority"] or bool(spec["nested"] and spec["nested"]["priority"])
    for eb in spec["extra"]:
        eb["priority"] = eb["priority"] and not prio_used
        prio_used = prio_used or eb["priority"]
    return spec


class D(Elaboratable):
    def __init__(self, spec):
        self.s = spec
        nb = spec["nb"]
        self.tr = Signal(name="tr")
        self.conds = [Signal(name=f"c{i}") for i in range(nb)]
        self.mr = [Signal(name=f"mr{i}") for i in range(spec["nm"])]
        self.ms = [Method(name=f"m{i}") for i in range(spec["nm"])]
        self.w = [Signal(name=f"w{i}") for i in range(nb + 1)]
        n = spec.get("nested")
        self.nconds = [Signal(name=f"nc{i}") for i in range(n["nb"])] if n else []
        self.nw = [Signal(name=f"nw{i}") for i in range(n["nb"])] if n else []
        self.guards = [Signal(name=f"g{i}") for i, g in enumerate(spec.get("chain", [])) if g]
        # a branch is observed through a private always-ready probe method it calls (probe.run == the branch
        # transaction runs): a comb witness inside the branch would be masked by the enclosing body's run signal
        self.probe = [Method(name=f"probe{i}") for i in range(nb + 1)]
        self.econds = [[Signal(name=f"e{k}c{i}") for i in range(eb["nb"])] for k, eb in enumerate(spec.get("extra", []))]
        self.eprobe = [[Method(name=f"e{k}p{i}") for i in range(eb["nb"] + 1)] for k, eb in enumerate(spec.get("extra", []))]
        self.nprobe = [Method(name=f"nprobe{i}") for i in range(n["nb"])] if n else []

    def elaborate(self, platform):
        m = TModule()
        s = self.s
        for i, meth in enumerate(self.ms):

            @def_method(m, meth, ready=self.mr[i])
            def _():
                pass

        for pm in self.probe + self.nprobe + [p for ps in self.eprobe for p in ps]:
            with pm.body(m):
                pass

        def nested_block():
            n = s["nested"]
            with condition(m, nonblocking=n["nonblocking"], priority=n["priority"]) as branch:
                for i in range(n["nb"]):
                    with branch(self.nconds[i]):
                        m.d.comb += self.nw[i].eq(1)
                        self.nprobe[i](m)
                        for c in n["calls"][i]:
                            self.ms[c](m)

        def extra_blocks():
            for k, eb in enumerate(s.get("extra", [])):
                with condition(m, nonblocking=eb["nonblocking"], priority=eb["priority"]) as branch:
                    for i in range(eb["nb"]):
                        with branch(self.econds[k][i]):
                            self.eprobe[k][i](m)
                    if eb["default"]:
                        with branch():
                            self.eprobe[k][eb["nb"]](m)

        def cond_block():
            extra_blocks()
            with condition(m, nonblocking=s["nonblocking"], priority=s["priority"]) as branch:
                for i in range(s["nb"]):
                    with branch(self.conds[i]):
                        m.d.comb += self.w[i].eq(1)
                        self.probe[i](m)
                        for c in s["calls"][i]:
                            self.ms[c](m)
                        if i == 0 and s.get("nested"):
                            nested_block()
                if s["default"]:
                    with branch():
                        m.d.comb += self.w[s["nb"]].eq(1)
                        self.probe[s["nb"]](m)
                        for c in s["calls"][s["nb"]]:
                            self.ms[c](m)

        if s["in_method"]:
            self.outer = Method(name="outer")
            kw = {"single_caller": True} if s.get("single_caller", True) else {}

            @def_method(m, self.outer, ready=self.tr, **kw)
            def _():
                cond_block()

            chain = s.get("chain") or [0]
            wrappers = [Method(name=f"wrapper{i}") for i in range(len(chain) - 1)]
            targets = wrappers + [self.outer]  # targets[k] is called at level k
            gsig = iter(self.guards)

            def call(level):
                g = chain[level]
                if g == 0:
                    targets[level](m)
                elif g == 1:
                    with m.If(next(gsig)):
                        targets[level](m)
                else:
                    targets[level](m, enable_call=next(gsig))

            # guards are consumed in level order, so define the transaction first
            self.t = Transaction(name="t")
            with self.t.body(m):
                call(0)
            for i, w in enumerate(wrappers):
                with w.body(m):
                    call(i + 1)
            self.parent_run = self.outer.run
        else:
            self.t = Transaction(name="t")
            with self.t.body(m, ready=self.tr):
                for c in s["tcalls"]:
                    self.ms[c](m)
                cond_block()
            self.parent_run = self.t.run
        return m


def run_case(spec) -> Result:
    res = Result(labels=[
        "nonblocking" if spec["nonblocking"] else "blocking",
        "priority" if spec["priority"] else "nopriority",
        "default" if spec["default"] else "nodefault",
        "in_method" if spec["in_method"] else "in_transaction",
    ])
    if spec.get("nested"):
        res.labels.append("nested_condition")
    if len(spec.get("chain", [])) >= 2:
        res.labels.append("call_chain>=2")
    if any(spec.get("chain", [])):
        res.labels.append("guarded_call")
    if spec.get("extra"):
        res.labels.append(f"blocks_in_body={1 + len(spec['extra'])}")
    shared = any(set(a) & set(b) for a, b in itertools.combinations(spec["calls"][: spec["nb"] + (1 if spec["default"] else 0)], 2))
    if shared:
        res.labels.append("shared_callee")
    d = D(spec)
    dm = DependencyManager()
    with DependencyContext(dm):
        sim = Simulator(TransactronContextElaboratable(d, dependency_manager=dm))
    ins = [d.tr] + d.conds + d.mr + d.nconds + d.guards + [c for cs in d.econds for c in cs]
    nb, nm = spec["nb"], spec["nm"]
    n = spec.get("nested")
    out = [None]
    st_ = dict(vals=0, prun=0, overlap=0)

    async def tb(ctx):
        cat_in = Cat(*ins)
        obs = Cat(d.parent_run, *[pm.run for pm in d.probe], *[pm.run for pm in d.nprobe], *d.w, *d.nw)
        eobs = Cat(*[p.run for ps in d.eprobe for p in ps]) if d.eprobe else None
        ebase = 1 + nb + nm + len(d.nconds) + len(d.guards)
        total = 1 << len(ins)
        stride = 1 if len(ins) <= 11 else (total // 2048) | 1  # larger spaces: 2048 strided valuations
        for v in range(0, total, stride):
            ctx.set(cat_in, v)
            bits = [(v >> i) & 1 for i in range(len(ins))]
            tr, c, mr = bits[0], bits[1 : 1 + nb], bits[1 + nb : 1 + nb + nm]
            nc = bits[1 + nb + nm : 1 + nb + nm + len(d.nconds)]
            word = ctx.get(obs)
            prun = word & 1
            w = [(word >> (1 + i)) & 1 for i in range(nb + 1)]
            nw = [(word >> (2 + nb + i)) & 1 for i in range(len(d.nw))]
            off = 2 + nb + len(d.nw)
            cw = [(word >> (off + i)) & 1 for i in range(nb + 1 + len(d.nw))]  # comb witnesses inside the branches
            n_used = nb + (1 if spec["default"] else 0)
            for i in list(range(n_used)) + [nb + 1 + j for j in range(len(d.nw))]:
                if cw[i] != (w + nw)[i]:
                    out[0] = f"branch {i}: probe method run={(w + nw)[i]} but the comb statement in the branch body is {cw[i]}; val={bits}"
                    return
            st_["vals"] += 1
            callee_ok = [all(mr[k] for k in spec["calls"][i]) for i in range(nb + 1)]
            # branch 0 with a blocking nested condition additionally needs an admissible nested branch
            adm = [bool(c[i]) and callee_ok[i] for i in range(nb)]
            nadm = []
            if n:
                nadm = [bool(nc[i]) and all(mr[k] for k in n["calls"][i]) for i in range(n["nb"])]
            n_br = nb + (1 if spec["default"] else 0)
            if sum(w[:n_br]) > 1:
                out[0] = f"P2: more than one branch runs: w={w} val={bits}"
                return
            for i in range(nb):
                if w[i] and not (prun and adm[i]):
                    out[0] = f"P1: branch {i} runs but parent_run={prun} cond={c[i]} callees_ready={callee_ok[i]}; val={bits}"
                    return
                if spec["priority"] and w[i]:
                    for j in range(i):
                        # an earlier branch was admissible; a branch containing a nested condition is admissible only
                        # if that nested condition can itself be satisfied (some nested branch admissible, or
                        # nonblocking with no nested condition true)
                        earlier = adm[j]
                        if j == 0 and n:
                            earlier = earlier and (any(nadm) or (n["nonblocking"] and not any(nc)))
                        if earlier:
                            out[0] = f"P5: branch {i} runs although earlier branch {j} was admissible; val={bits}"
                            return
            if spec["default"] and w[nb]:
                if any(c) or not prun or not callee_ok[nb]:
                    out[0] = f"P3: default branch runs with conds={c} parent_run={prun}; val={bits}"
                    return
            if prun:
                st_["prun"] += 1
                if not any(w[:n_br]) and not (spec["nonblocking"] and not spec["default"] and not any(c)):
                    out[0] = f"P4: parent runs without any branch: w={w}; val={bits}"
                    return
            if n:
                if sum(nw) > 1:
                    out[0] = f"P2(nested): nw={nw}; val={bits}"
                    return
                for i in range(n["nb"]):
                    if nw[i] and not (w[0] and nadm[i]):
                        out[0] = f"P1(nested): nested branch {i} runs, outer branch0={w[0]}, admissible={nadm[i]}; val={bits}"
                        return
                    if n["priority"] and nw[i] and any(nadm[:i]):
                        out[0] = f"P5(nested): nested branch {i} runs although an earlier one was admissible; val={bits}"
                        return
                if w[0] and not any(nw) and not (n["nonblocking"] and not any(nc)):
                    out[0] = f"P4(nested): outer branch 0 runs without a nested branch; val={bits}"
                    return
            # the further blocks of the same body: same clauses (their branches have no callees: admissible = condition)
            if eobs is not None:
                eword = ctx.get(eobs)
                pos, cpos = 0, ebase
                for k, eb in enumerate(spec.get("extra", [])):
                    ew = [(eword >> (pos + i)) & 1 for i in range(eb["nb"] + 1)]
                    ec = bits[cpos : cpos + eb["nb"]]
                    pos += eb["nb"] + 1
                    cpos += eb["nb"]
                    used = eb["nb"] + (1 if eb["default"] else 0)
                    if sum(ew[:used]) > 1:
                        out[0] = f"P2(block {k + 1}): more than one branch runs: {ew}; val={bits}"
                        return
                    for i in range(eb["nb"]):
                        if ew[i] and not (prun and ec[i]):
                            out[0] = f"P1(block {k + 1}): branch {i} runs but parent_run={prun} cond={ec[i]}; val={bits}"
                            return
                        if eb["priority"] and ew[i] and any(ec[:i]):
                            out[0] = f"P5(block {k + 1}): branch {i} runs although an earlier branch was admissible; val={bits}"
                            return
                    if eb["default"] and ew[eb["nb"]] and (any(ec) or not prun):
                        out[0] = f"P3(block {k + 1}): default branch runs with conds={ec} parent_run={prun}; val={bits}"
                        return
                    if prun and not any(ew[:used]) and not (eb["nonblocking"] and not eb["default"] and not any(ec)):
                        out[0] = f"P4(block {k + 1}): parent runs without a branch of this block: {ew}; val={bits}"
                        return
            trues = [i for i in range(nb) if c[i]]
            if len(trues) >= 2 and len({callee_ok[i] for i in trues}) == 2:
                st_["overlap"] += 1

    with DependencyContext(dm):
        sim.add_testbench(tb)
        sim.run()
    res.stats["valuations"] = st_["vals"]
    res.stats["parent_runs"] = st_["prun"]
    res.stats["overlap_valuations"] = st_["overlap"]
    if out[0] is not None:
        return res.fail(out[0])
    res.nontrivial = st_["overlap"] > 0
    return res
