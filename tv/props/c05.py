"""C05 - call arguments and results are routed to the right party."""

from tv.designs import gen_spec
from tv.props._core_a import run_design, tier_opts

ID = "C05"
ENGINE = "A"
RULE = (
    "case = generated design whose methods take 0-2 bit arguments (per call site an input signal or a constant) and "
    "return f(argument, per-method input), called directly and through 1-2 provide / Methods.provide hops, under "
    "all / 256 drawn valuations; oracle = a running exclusive method sees the argument of its single active site, a "
    "running nonexclusive method with OR-combiner sees the OR over its active sites, the method output equals "
    "f(observed input), and every call-site result witness equals the method output of that cycle; non-trivial = a "
    "method with >= 2 call sites with argument inputs, or an alias on a data-carrying method"
)
ASSUMPTIONS = ["amaranth.sim.Simulator is the trusted execution model"]
TECHNIQUE = "grammar-based design generation + exhaustive input valuations against a semantic predicate"


def budget(tier):
    return dict(examples=70, seconds=45) if tier == "quick" else dict(examples=300, seconds=420)


def strategy(tier):
    return gen_spec(**{**tier_opts(tier), **dict(allow_rels=False, allow_validate=False, allow_nt=False)})


def run_case(case):
    res, an, orc, exc = run_design(case, ["c05"])
    if orc is None:
        return res
    multi = False
    alias = False
    for m in an.methods:
        b = an.bodies[m]
        sites = [s for s in an.sites if s["callee"] == m]
        if b.get("iw") and sum(1 for s in sites if s["arg"] is None) >= 2:
            multi = True
        if (b.get("iw") or b.get("ow")) and any(s["s"].get("hops") for s in sites):
            alias = True
    if multi:
        res.labels.append("multi_arg_sites")
    if alias:
        res.labels.append("data_alias")
    res.nontrivial = multi or alias
    return res
