"""C07 - the eager scheduler wastes no cycle."""

from hypothesis import strategies as st

from tv.designs import gen_conflict_graph_spec, gen_spec
from tv.props._core_a import run_design, tier_opts

ID = "C07"
ENGINE = "A"
RULE = (
    "case = generated design under the default (eager) scheduler with add_conflict / schedule_before relations, "
    "nonexclusive methods, calls in different alternatives of If/Switch/FSM, nested transactions, under all / 256 drawn "
    "valuations; oracle = a transaction that is fully enabled (C03's right-hand side computed from the inputs and the "
    "observed runs of its dependencies) and does not run has a running transaction T' with may_conflict(T, T'), the "
    "largest conflict relation the statement allows (distinct non-alt-exclusive sites of one exclusive method, or "
    "add_conflict between any bodies of the two trees); non-trivial = >= 1 valuation with a blocked enabled "
    "transaction and >= 1 valuation with two transactions running"
)
ASSUMPTIONS = [
    "amaranth.sim.Simulator is the trusted execution model",
    "may_conflict is deliberately the largest relation allowed, so an over-conservative but unobservable conflict edge is not an alarm",
]
TECHNIQUE = "grammar-based design generation + exhaustive input valuations against a semantic predicate"


def budget(tier):
    return dict(examples=70, seconds=45) if tier == "quick" else dict(examples=300, seconds=420)


def strategy(tier):
    general = gen_spec(**{**tier_opts(tier), **dict(allow_rels=True, allow_rdep=True, allow_nm=True, sched="eager", min_trans=2, max_trans=5, allow_alias=False, nonex_rate=2)})
    # one case in four is a relation-heavy design (many small transactions, hub / chain conflict topologies)
    graph = gen_conflict_graph_spec(sched="eager")
    return st.integers(0, 3).flatmap(lambda k: graph if k == 3 else general)


def run_case(case):
    res, an, orc, exc = run_design(case, ["c07"], extra_visit=lambda ob, orc: orc.check_c01(ob) and None)
    if orc is None:
        return res
    res.stats["blocked_enabled"] = orc.stats["blocked"]
    res.stats["multi_run_valuations"] = orc.stats["multi_run"]
    res.nontrivial = orc.stats["blocked"] > 0 and orc.stats["multi_run"] > 0
    return res
