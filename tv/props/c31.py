"""C31 - HwCounter, TaggedCounter and HwExpHistogram count exactly; disabled metrics produce no hardware."""

from hypothesis import strategies as st

from tv.core import HarnessError, Result, classify_exception, short_exc
from tv.cyc import Harness, history, step

ID = "C31"
ENGINE = "B"
TECHNIQUE = "cycle driver + python tally; structural inspection of the elaborated design for the disabled mode"
RULE = (
    "case = (kind HwCounter|TaggedCounter|HwExpHistogram, metrics enabled?, ways 1..4, register width 1..8, "
    "tag set (range incl. negative/stepped/descending | list of ints | python IntEnum/Enum/IntFlag | amaranth "
    "Enum/Flag with explicit shape; incl. complete and incomplete one-hot sets) or (bucket_count 1..8, sample_width "
    "1..8), history of per-cycle per-way calls (enable_call bit, tag selector / sample)); the metric is used the way "
    "user code uses it: from the body of a method of a small wrapper with an execution witness counter. Enabled: "
    "all registers are compared with a python tally modulo register width after every cycle. Disabled: every "
    "requested caller runs and the metric's fragment (and everything below it) holds no statements and none of its "
    "register signals occurs in the design. Non-trivial = counter: two ways counted in one cycle or the register "
    "wrapped; tagged: two ways hit the same tag in one cycle; histogram: samples in >= 3 buckets (or all buckets) "
    "and two ways in one cycle; disabled: at least one caller ran"
)
RULE += (
    "  In one case of three an additional user method calls way 0 as well (two callers of one exclusive method of the "
    "metric): with metrics enabled exactly one of the requesters of that pair is served per cycle and every executed, "
    "enabled call is counted; with metrics disabled the methods are empty and nobody waits."
)

ASSUMPTIONS = [
    "amaranth.sim.Simulator is the trusted execution model",
    "only tags that belong to the tag set are passed to TaggedCounter.incr (other values are undocumented)",
    "tag sets are non-empty and duplicate free; amaranth enums are generated with unsigned shapes only "
    "(a signed amaranth enum cannot be a method-layout field in amaranth 0.5.9, independent of the metric)",
    "'no hardware' is judged on the elaborated amaranth Design: no statements in or below the metric's fragment, "
    "only plain Fragments there, and no register signal of the metric referenced anywhere",
    "bucket i of an n-bucket histogram covers [2^(i-1), 2^i), bucket 0 covers [0,1), the last one is open ended "
    "(register descriptions); hence a 1-bucket histogram counts every sample in its only bucket",
]

PY_ENUMS = ("IntEnum", "Enum", "IntFlag")


def budget(tier):
    return dict(examples=150, seconds=40) if tier == "quick" else dict(examples=2500, seconds=360)


# ------------------------------------------------------------------------------------------------- tag sets


def tag_values(tags: dict) -> list[int]:
    if tags["style"] == "range":
        return list(range(tags["start"], tags["stop"], tags["step"]))
    return list(tags["values"])


def build_tags(tags: dict):
    """The object handed to TaggedCounter(tags=...)."""
    import enum as pyenum

    from amaranth.lib import enum as aenum

    style = tags["style"]
    if style == "range":
        return range(tags["start"], tags["stop"], tags["step"])
    if style == "list":
        return list(tags["values"])
    members = {f"V{i}": v for i, v in enumerate(tags["values"])}
    if style in PY_ENUMS:
        return getattr(pyenum, style)("T", members)
    base = aenum.Enum if style == "aEnum" else aenum.Flag
    ns = aenum.EnumType.__prepare__("T", (base,))
    for k, v in members.items():
        ns[k] = v
    return aenum.EnumType("T", (base,), ns, shape=tags["width"])


def tag_width(tags: dict) -> int:
    """Bit width of the tag argument, as documented: the enum / range itself, or range(min, max+1) for a list."""
    from amaranth import Shape

    vals = tag_values(tags)
    if tags["style"] == "list":
        return Shape.cast(range(min(vals), max(vals) + 1)).width
    return Shape.cast(build_tags(tags)).width


def f6_region(case) -> bool:
    """One-hot encodable tag set that is not exactly {1, 2, 4, ..., 2^(w-1)} for the w-bit tag argument."""
    if case["kind"] != "tagged" or not case["enabled"]:
        return False
    vals = tag_values(case["tags"])
    if not all(v > 0 and v & (v - 1) == 0 for v in vals):
        return False
    return set(vals) != {1 << i for i in range(tag_width(case["tags"]))}


F6_KEY = "TaggedCounter:onehot-tags-not-1,2,4.."
F8_KEY = "HwExpHistogram:bucket_count=1"


def exception_vkey(case, exc):
    return F6_KEY if f6_region(case) else None


@st.composite
def tags_strategy(draw):
    style = draw(
        st.sampled_from(["list", "range", "onehot", "pyenum", "subset", "aenum", "range", "list", "onehot", "pyenum"])
    )
    if style == "range":
        start = draw(st.integers(-8, 8))
        step = draw(st.sampled_from([1, 1, 1, 2, 3, -1, -2]))
        n = draw(st.integers(1, 6))
        return {"style": "range", "start": start, "stop": start + step * n, "step": step}
    if style == "list":
        vals = draw(st.lists(st.integers(-20, 40), min_size=1, max_size=6, unique=True))
        return {"style": "list", "values": vals}
    if style in ("onehot", "subset"):
        # powers of two: the complete set {1..2^(n-1)} (the optimised path) or an arbitrary subset (mostly region F6)
        how = draw(st.sampled_from(["list", "IntFlag", "IntEnum", "aFlag", "range", "list"]))
        if style == "onehot":
            n = draw(st.integers(1, 5))
            vals = [1 << i for i in range(n)]
            if how == "range":
                how = "list" if n > 2 else "range"
        else:
            vals = sorted(draw(st.sets(st.sampled_from([1, 2, 4, 8, 16]), min_size=1, max_size=4)))
            if how == "range":
                how = "range" if len(vals) <= 2 else "list"
        if how == "range":
            step = vals[1] - vals[0] if len(vals) == 2 else 1
            return {"style": "range", "start": vals[0], "stop": vals[-1] + 1, "step": step}
        if how == "list":
            vals = draw(st.permutations(vals))
            return {"style": "list", "values": list(vals)}
        if how == "aFlag":
            return {"style": "aFlag", "values": vals, "width": max(vals).bit_length() + draw(st.integers(0, 1))}
        return {"style": how, "values": vals}
    if style == "pyenum":
        how = draw(st.sampled_from(["IntEnum", "Enum"]))
        vals = draw(st.lists(st.integers(-8, 20), min_size=1, max_size=6, unique=True))
        return {"style": how, "values": vals}
    vals = draw(st.lists(st.integers(0, 20), min_size=1, max_size=6, unique=True))
    return {"style": "aEnum", "values": vals, "width": max(max(vals).bit_length(), 1) + draw(st.integers(0, 2))}


@st.composite
def strategy(draw, tier="quick"):
    kind = draw(st.sampled_from(["tagged", "hist", "counter", "tagged", "hist"]))
    enabled = draw(st.integers(0, 7)) > 0
    hi = 40 if tier == "quick" else 150
    case = {"kind": kind, "enabled": enabled, "width": draw(st.integers(1, 8))}
    if kind == "counter":
        ways = draw(st.integers(1, 4))
        bounds = [4]
    elif kind == "tagged":
        ways = draw(st.sampled_from([2, 1, 3, 2]))
        case["tags"] = draw(tags_strategy())
        bounds = [4, 64]
    else:
        ways = draw(st.integers(1, 3))
        case["buckets"] = draw(st.sampled_from([3, 2, 4, 1, 5, 2, 6, 3, 7, 8, 4, 5]))
        case["sample_width"] = draw(st.integers(1, 8))
        bounds = [4, 6, 256]
    case["ways"] = ways
    # in one case of three an additional user method shares way 0 with the first one (two callers of one exclusive
    # method of the metric: they are serialised and every executed call is counted)
    case["shared"] = draw(st.integers(0, 2)) == 0
    case["history"] = draw(history({f"go{k}": bounds for k in range(ways + int(case["shared"]))}, 3, hi))
    return case


def resolve_sample(mode: int, raw: int, sw: int) -> int:
    if mode == 0:
        return raw % (1 << sw)
    if mode == 1:
        return 0
    if mode == 2:
        return 1 << (raw % sw)
    if mode == 3:
        return (1 << sw) - 1
    if mode == 4:
        return (1 << (raw % sw + 1)) - 1
    return 1


# ------------------------------------------------------------------------------------------------- the check


def run_case(case) -> Result:
    from amaranth import Elaboratable, Signal
    from amaranth.hdl import Fragment

    from transactron import Methods, TModule, def_methods
    from transactron.lib.metrics import HwCounter, HwExpHistogram, HwMetricsEnabledKey, TaggedCounter

    kind, enabled, ways, width = case["kind"], case["enabled"], case["ways"], case["width"]
    res = Result(labels=[kind + ("" if enabled else "-disabled")])
    nusers = ways + int(bool(case.get("shared")))  # user methods; the last one shares way 0 when "shared"
    if nusers > ways:
        res.labels.append("two_callers_of_way0")

    if kind == "counter":
        make = lambda: HwCounter("m.c", "", width_bits=width, ways=ways)  # noqa: E731
        arg_layout = lambda metric: []  # noqa: E731
        call = lambda metric, k, m, arg: metric.incr[k](m, enable_call=arg.cond)  # noqa: E731
    elif kind == "tagged":
        vals = tag_values(case["tags"])
        onehot = all(v > 0 and v & (v - 1) == 0 for v in vals)
        res.labels.append("tags:" + case["tags"]["style"])
        if onehot:
            res.labels.append("onehot-f6-region" if f6_region(case) else "onehot-complete")
        if min(vals) < 0:
            res.labels.append("negative-tags")
        make = lambda: TaggedCounter(  # noqa: E731
            "m.t", "", tags=build_tags(case["tags"]), registers_width=width, ways=ways
        )
        arg_layout = lambda metric: [("tag", metric.tag_shape)]  # noqa: E731
        call = lambda metric, k, m, arg: metric.incr[k](m, tag=arg.tag, enable_call=arg.cond)  # noqa: E731
    else:
        nb, sw = case["buckets"], case["sample_width"]
        res.labels.append(f"buckets{nb}" if nb <= 2 else "buckets3+")
        make = lambda: HwExpHistogram(  # noqa: E731
            "m.h", "", bucket_count=nb, sample_width=sw, registers_width=width, ways=ways
        )
        arg_layout = lambda metric: [("sample", sw)]  # noqa: E731
        call = lambda metric, k, m, arg: metric.add[k](m, sample=arg.sample, enable_call=arg.cond)  # noqa: E731

    class MetricUser(Elaboratable):
        """User code: `ways` methods, each calls one way of the metric (with `enable_call`) and counts its own runs."""

        def __init__(self):
            self.metric = make()
            self.go = Methods(nusers, i=[("cond", 1)] + arg_layout(self.metric))
            self.execs = [Signal(16, name=f"execs{k}") for k in range(nusers)]

        def elaborate(self, platform):
            m = TModule()
            m.submodules.metric = self.metric

            @def_methods(m, self.go)
            def _(k, arg):
                m.d.sync += self.execs[k].eq(self.execs[k] + 1)
                call(self.metric, k if k < ways else 0, m, arg)

            return m

    try:
        h = Harness(MetricUser, dm_setup=lambda dm: dm.add_dependency(HwMetricsEnabledKey(), enabled))
    except Exception as e:  # noqa
        if classify_exception(e) == "library" and f6_region(case):
            # keep the labels (the runner's generic handler would drop them); the region key comes from the case
            Elaboratable._MustUse__silence = True  # the half-built design would only spam UnusedElaboratable warnings
            return res.fail("library raised " + short_exc(e), vkey=F6_KEY)
        raise
    metric = h.dut.metric
    mask = (1 << width) - 1

    # ---- structure: what did the metric contribute to the design?
    design = h.sim._design
    mfrag = [f for f in design.fragments if f.origins is not None and any(o is metric for o in f.origins)]
    if len(mfrag) != 1:
        raise HarnessError(f"expected exactly one fragment for the metric, found {len(mfrag)}")
    mname = design.fragments[mfrag[0]].name
    below = [f for f, info in design.fragments.items() if info.name[: len(mname)] == mname]
    n_stmts = sum(len(s) for f in below for s in f.statements.values())
    exotic = [type(f).__name__ for f in below if type(f) is not Fragment]
    reg_ids = {id(s) for s in metric.signals.values()}
    referenced = set()
    for f in design.fragments:
        for stmts in f.statements.values():
            for s in stmts:
                referenced.update(id(x) for x in s._lhs_signals())
                referenced.update(id(x) for x in s._rhs_signals())
    res.stats["metric_statements"] = n_stmts
    if not enabled:
        if n_stmts or exotic:
            return res.fail(f"metrics disabled but the metric's fragment holds {n_stmts} statements {exotic}")
        if referenced & reg_ids:
            return res.fail("metrics disabled but register signals of the metric are referenced in the design")

    # ---- behaviour
    flags = dict(multi=False, wrap=False, same_tag=False, ran=False)
    seen_buckets = set()

    if kind == "counter":
        tally = {"count": 0}
    elif kind == "tagged":
        tally = {v: 0 for v in vals}
    else:
        tally = dict(count=0, sum=0, min=(1 << sw) - 1, max=0, b=[0] * nb)

    def read_regs(ctx):
        if kind == "counter":
            return {"count": ctx.get(metric.count.value)}
        if kind == "tagged":
            return {v: ctx.get(metric.counters[v].value) for v in vals}
        return dict(
            count=ctx.get(metric.count.value),
            sum=ctx.get(metric.sum.value),
            min=ctx.get(metric.min.value),
            max=ctx.get(metric.max.value),
            b=[ctx.get(b.value) for b in metric.buckets],
        )

    def expected():
        if kind == "counter":
            return {"count": tally["count"] & mask}
        if kind == "tagged":
            return {v: tally[v] & mask for v in vals}
        return dict(
            count=tally["count"] & mask,
            sum=tally["sum"] & mask,
            min=tally["min"],
            max=tally["max"],
            b=[x & mask for x in tally["b"]],
        )

    async def tb(ctx):
        ios = h.ios(["go"])
        runs = [0] * nusers
        for cyc, rec in enumerate(case["history"]):
            reqs = {}
            for k in range(nusers):
                a = rec.get(f"go{k}")
                if a is None:
                    continue
                r = {"cond": int(a[0] != 0)}
                if kind == "tagged":
                    r["tag"] = vals[a[1] % len(vals)]
                elif kind == "hist":
                    r["sample"] = resolve_sample(a[1], a[2], sw)
                reqs[f"go{k}"] = r
            results, execs = await step(ctx, ios, reqs, samples=())
            res.stats["cycles"] = res.stats.get("cycles", 0) + 1
            counted = []
            # (a disabled metric has no hardware at all: its methods are empty and shared freely, nobody waits)
            group = ["go0", f"go{ways}"] if nusers > ways and enabled else []
            greq = [n for n in group if n in reqs]
            gacc = [n for n in group if results[n] is not None]
            if group and (len(gacc) != (1 if greq else 0) or not set(gacc) <= set(greq)):
                return res.fail(
                    f"cycle {cyc}: the two callers of way 0: requested {greq}, ran {gacc} (exactly one of the requesters "
                    "is served per cycle: the metric's methods are exclusive and never block)"
                )
            for k in range(nusers):
                n = f"go{k}"
                acc = results[n] is not None
                if n not in group and acc != (n in reqs):
                    return res.fail(
                        f"cycle {cyc}: caller {n} requested={n in reqs} but ran={acc} (metric methods never block)"
                    )
                if acc:
                    runs[k] += 1
                    flags["ran"] = True
                    if reqs[n]["cond"]:
                        counted.append(reqs[n])
                if ctx.get(h.dut.execs[k]) != runs[k] & 0xFFFF:
                    return res.fail(f"cycle {cyc}: witness of caller {k} is {ctx.get(h.dut.execs[k])}, ran {runs[k]}")
            if not enabled:
                continue
            if len(counted) >= 2:
                flags["multi"] = True
            if kind == "counter":
                tally["count"] += len(counted)
                if tally["count"] > mask:
                    flags["wrap"] = True
            elif kind == "tagged":
                tags_now = [r["tag"] for r in counted]
                if len(set(tags_now)) < len(tags_now):
                    flags["same_tag"] = True
                for t in tags_now:
                    tally[t] += 1
            else:
                for r in counted:
                    v = r["sample"]
                    tally["count"] += 1
                    tally["sum"] += v
                    tally["min"] = min(tally["min"], v)
                    tally["max"] = max(tally["max"], v)
                    i = 0 if v == 0 else min(v.bit_length(), nb - 1)
                    tally["b"][i] += 1
                    seen_buckets.add(i)
            got, exp = read_regs(ctx), expected()
            if got != exp:
                vkey = F8_KEY if kind == "hist" and nb == 1 else None
                return res.fail(
                    f"cycle {cyc}: registers {got}, tally says {exp} (calls counted this cycle: {counted})", vkey
                )

    h.run(tb)
    if not enabled:
        res.nontrivial = flags["ran"]
    elif kind == "counter":
        for k in ("multi", "wrap"):
            if flags[k]:
                res.labels.append(k)
        res.nontrivial = flags["multi"] or flags["wrap"]
    elif kind == "tagged":
        if flags["same_tag"]:
            res.labels.append("same-tag-2ways")
        res.nontrivial = flags["same_tag"]
    else:
        many = len(seen_buckets) >= min(3, nb)
        if many:
            res.labels.append("hist-spread")
        if flags["multi"]:
            res.labels.append("multi")
        res.nontrivial = many and flags["multi"]
    return res
