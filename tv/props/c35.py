"""C35 - the profiler records what actually ran."""

from hypothesis import strategies as st

from tv.core import Result
from tv.designs import Oracle, analyze, gen_spec, simulate, try_build
from tv.props._core_a import shape_labels

ID = "C35"
ENGINE = "A"
RULE = (
    "case = generated design (engine A grammar, eager scheduler, conflicts, nested calls) driven by a drawn history of "
    "10-40 valuations with a clock tick each, with transactron.testing.profiler.profiler_process attached exactly as "
    "TestCaseWithSimulatorBase does; our own sampler records run of every transaction and method per cycle; oracle = "
    "per cycle profile.running is exactly the observed running set, every running method is mapped to a running body "
    "that is one of its static callers, running transactions have no caller, a transaction is in `locked` only if it "
    "was fully enabled, did not run, and the named transaction ran and may-conflicts with it; analyze_transactions() "
    "run/locked equal the counts over cycles; non-trivial = history with >= 1 locked transaction and >= 1 running "
    "method at call depth 2"
)
ASSUMPTIONS = [
    "amaranth.sim.Simulator is the trusted execution model",
    "'ready and runnable' is our C03 predicate computed from the inputs (validated against the library by C03/C07)",
]
TECHNIQUE = "generated designs and histories; differential check of the profile against an independent per-cycle sampler"


def budget(tier):
    return dict(examples=70, seconds=45) if tier == "quick" else dict(examples=300, seconds=420)


@st.composite
def strategy(draw, tier="quick"):
    spec = draw(gen_spec(sched="eager", allow_rels=True, rel_kinds=("conf",), allow_same_trans_conf=False, min_trans=2,
                         max_trans=4, allow_data=False, allow_validate=False, max_space=1, nvals=1, nonex_rate=2))
    an = analyze(spec)
    n = draw(st.integers(10, 40))
    space = an.space()
    spec["vals"] = draw(st.lists(st.integers(0, space - 1) | st.just(space - 1), min_size=n, max_size=n))
    spec["nvals"] = n
    return spec


def run_case(case) -> Result:
    from transactron.profiler import Profile
    from transactron.testing.profiler import profiler_process

    an = analyze(case)
    res = Result(labels=shape_labels(an))
    built, exc = try_build(case, an)
    if built is None:
        res.labels.append("elaboration_failed")
        return res
    orc = Oracle(an)
    profile = Profile()
    built.sim.add_process(profiler_process(built.tm, profile))
    observed = []

    def visit(ob):
        en = {t: orc.enabled(t, ob)[0] for t in an.transactions}
        act = {}
        for m in an.methods:
            act[m] = sorted({s["owner"] for s in an.sites if s["callee"] == m and orc.site_active(s, ob)})
        observed.append((dict(ob.run), en, act))
        return None

    space = an.space()
    simulate(built, [v % space for v in case["vals"]], visit, tick=True)
    # map profile ids to our body names
    ids = {}
    for i, info in profile.transactions_and_methods.items():
        for n in an.bodies:
            if info.name == n or info.name.endswith("_" + n):
                if i in ids:
                    return res.fail(f"ambiguous profile name {info.name}")
                ids[i] = n
        if i not in ids:
            return res.fail(f"profile lists unknown body {info.name}")
        if info.is_transaction != (an.bodies[ids[i]]["kind"] == "T"):
            return res.fail(f"profile marks {info.name} with is_transaction={info.is_transaction}")
    if set(ids.values()) != set(an.bodies):
        return res.fail(f"profile does not list {sorted(set(an.bodies) - set(ids.values()))}")
    if len(profile.cycles) < len(observed):
        return res.fail(f"profile has {len(profile.cycles)} cycles, {len(observed)} simulated")
    run_cnt = {t: 0 for t in an.transactions}
    lock_cnt = {t: 0 for t in an.transactions}
    n_locked = 0
    depth2 = 0
    for cyc, (run, en, act) in enumerate(observed):
        c = profile.cycles[cyc]
        prof_running = {ids[i]: (None if j is None else ids[j]) for i, j in c.running.items()}
        obs_running = {n for n, r in run.items() if r}
        if set(prof_running) != obs_running:
            return res.fail(f"cycle {cyc}: profile running {sorted(prof_running)} but observed running {sorted(obs_running)}")
        for n, caller in prof_running.items():
            if an.bodies[n]["kind"] == "T":
                if caller is not None:
                    return res.fail(f"cycle {cyc}: running transaction {n} has caller {caller}")
                run_cnt[n] += 1
            else:
                if caller is None or not run.get(caller) or caller not in {s["owner"] for s in an.sites if s["callee"] == n}:
                    return res.fail(f"cycle {cyc}: running method {n} mapped to caller {caller} (active callers {act[n]})")
                if an.bodies[caller]["kind"] == "M":
                    depth2 += 1
        for i, j in c.locked.items():
            n, by = ids[i], ids[j]
            if an.bodies[n]["kind"] != "T":
                continue  # locked methods (disabled calls) are outside the statement
            n_locked += 1
            lock_cnt[n] += 1
            if run[n] or not en[n]:
                return res.fail(f"cycle {cyc}: transaction {n} marked locked but run={run[n]} enabled={en[n]}")
            if not run.get(by) or an.bodies[by]["kind"] != "T" or not an.may_conflict(n, by):
                return res.fail(f"cycle {cyc}: transaction {n} marked locked by {by}, which did not run or does not conflict")
    # statistics (only the simulated prefix is comparable: cut the profile to it)
    profile.cycles = profile.cycles[: len(observed)]
    for node in profile.analyze_transactions():
        name = next(n for n in an.transactions if node.stat.name == n or node.stat.name.endswith("_" + n))
        if node.stat.run != run_cnt[name] or node.stat.locked != lock_cnt[name]:
            return res.fail(
                f"analyze_transactions: {name} run={node.stat.run} locked={node.stat.locked}, counted run={run_cnt[name]} locked={lock_cnt[name]}"
            )
    res.stats["cycles"] = len(observed)
    res.stats["locked_transaction_cycles"] = n_locked
    res.stats["depth2_method_runs"] = depth2
    if n_locked:
        res.labels.append("has_locked")
    if depth2:
        res.labels.append("has_depth2_run")
    res.nontrivial = n_locked > 0 and depth2 > 0
    return res
