"""C28 - PipelineBuilder pipelines are ordered, lossless and compute the composed stages."""

from hypothesis import strategies as st

from tv.core import Result
from tv.cyc import Harness, step

ID = "C28"
ENGINE = "B"
TECHNIQUE = "generated pipeline shapes + cycle driver + latency-insensitive per-epoch token model"
RULE = (
    "case = pipeline shape (source external over a non-empty subset of fields a/b/c of 2..8 bits; 0-4 middle nodes of "
    "kind f=function stage (affine function of a subset of the defined fields writing a new or overwritten field or "
    "nothing, parameters inferred or given as i= with 'arg'), h=called-method stage (helper method with its own ready "
    "input), x=middle external returning a subset of the fields and taking new values for others, n=no_dependency "
    "injecting external, g=no_dependency called generator method; optional fifo(1..3) before any node incl. the "
    "sink; a `ready` input on every node incl. source and sink; source optionally no_dependency; sink external "
    "over a subset of the defined fields; "
    "allow_unused/allow_empty drawn and forced on when the independent liveness computation needs them; optional "
    "0-3 external clear hooks, possibly sharing one Method name) + history in 1-4 segments (per-segment weights for write/read/clear/ext requests, per-node "
    "stall weights incl. 'stalled for the whole segment', helper readiness) followed by a clear-free drain with "
    "everything ready; non-trivial = >= 1 middle node, >= 3 items accepted, >= 1 delivered and (a stall while >= 2 "
    "items were in flight or a clear with items in flight)"
)
ASSUMPTIONS = [
    "amaranth.sim.Simulator is the trusted execution model",
    "readiness is judged behaviourally; the oracle is latency-insensitive: it never demands that a call is accepted, "
    "only that every accepted call / stage execution is justified (except the final drain, which must empty the pipe)",
    "every connector between two nodes is registered (Pipe or BasicFifo): an item passes node j+1 strictly later "
    "than node j; an injected value is usable strictly after the cycle it was accepted",
    "a clear accepted in cycle c discards every item and injected value accepted in a cycle <= c; reads/stage "
    "executions in cycle c itself still belong to the items before the clear (Pipe/BasicFifo clear semantics)",
    "every external is called by its own testbench transaction (no two pipeline externals in one transaction)",
    "stage executions are observed through comb witnesses set inside the stage function / helper method body",
]

FIELDS = ["a", "b", "c"]


def budget(tier):
    return dict(examples=45, seconds=25) if tier == "quick" else dict(examples=400, seconds=300)


# ------------------------------------------------------------------------------------------------ generation


@st.composite
def strategy(draw, tier="quick"):
    widths = [draw(st.integers(2, 8)) for _ in FIELDS]
    n_mid = draw(st.sampled_from([2, 1, 3, 4, 2, 3, 1, 4, 0]))
    nodes = []
    for _ in range(n_mid):
        nodes.append(
            {
                "kind": draw(st.sampled_from(["f", "f", "f", "h", "h", "x", "x", "n", "g"])),
                "fifo": draw(st.sampled_from([0, 0, 0, 1, 2, 3])),
                "ins": draw(st.integers(0, 7)),
                "out": draw(st.integers(0, 7)),
                "coef": [draw(st.integers(1, 3)) for _ in FIELDS],
                "k": draw(st.integers(0, 15)),
                "style": draw(st.integers(0, 1)),
            }
        )
    case = {
        "widths": widths,
        "src": draw(st.integers(0, 6)),
        "nodes": nodes,
        "sink": draw(st.integers(0, 6)),
        "sink_fifo": draw(st.sampled_from([0, 0, 1, 2, 3])),
        "allow_unused": draw(st.sampled_from([False, False, False, True])),
        "allow_empty": draw(st.sampled_from([False, False, False, True])),
        # number of external clear hooks (0-3); "same name": the hooks are different Methods that share one name, as
        # `<submodule>.clear` of several external modules do
        "ext_clear": draw(st.sampled_from([0, 1, 1, 2, 2, 3])),
        "ext_clear_same_name": draw(st.booleans()),
        "src_nodep": draw(st.sampled_from([False, False, False, True])),
    }
    n_nodes = n_mid + 2
    hi = 60 if tier == "quick" else 200
    total = draw(st.integers(12, hi))
    nseg = draw(st.integers(1, 4))
    per = max(1, total // nseg)
    hist = []
    for s in range(nseg):
        n = per if s < nseg - 1 else max(1, total - per * (nseg - 1))
        w_write = draw(st.integers(3, 8))
        w_read = draw(st.integers(0, 8))
        w_clear = draw(st.sampled_from([0, 1, 0, 2, 1, 3]))  # out of 16
        w_ext = draw(st.integers(2, 8))
        w_stall = [draw(st.sampled_from([0, 0, 2, 4] if j == 0 else [0, 0, 0, 2, 4, 8])) for j in range(n_nodes)]
        w_hrdy = draw(st.integers(3, 8))
        for _ in range(n):
            rec = {
                "write": [draw(st.integers(0, 255)) for _ in FIELDS] if draw(st.integers(0, 7)) < w_write else None,
                "read": draw(st.integers(0, 7)) < w_read,
                "clear": draw(st.integers(0, 15)) < w_clear,
                "stall": [int(w > 0 and draw(st.integers(0, 7)) < w) for w in w_stall],
                "hrdy": [int(draw(st.integers(0, 7)) < w_hrdy) for _ in range(n_mid)],
                "ext": [
                    ([draw(st.integers(0, 255)) for _ in FIELDS] if draw(st.integers(0, 7)) < w_ext else None)
                    if nd["kind"] in "xn"
                    else None
                    for nd in nodes
                ],
            }
            hist.append(rec)
    case["history"] = hist
    return case


def _subset(mask, universe):
    return [f for i, f in enumerate(universe) if (mask >> i) & 1]


def resolve(case):
    """Turn the raw selectors into a concrete, valid pipeline description (deterministic)."""
    w = dict(zip(FIELDS, case["widths"]))
    src = _subset(case["src"] % 7 + 1, FIELDS)
    defined = list(src)
    nodes = [dict(kind="src", gen=list(src), req=[], fifo=0)]
    for raw in case["nodes"]:
        kind = raw["kind"]
        nd = dict(kind=kind, fifo=raw["fifo"], coef=dict(zip(FIELDS, raw["coef"])), k=raw["k"], style=raw["style"])
        if kind in "fh":
            nd["req"] = _subset(raw["ins"], defined)
            o = raw["out"] % 4
            nd["gen"] = [FIELDS[o]] if o < 3 else []
        elif kind == "x":
            nd["req"] = _subset(raw["ins"], defined)
            nd["gen"] = _subset(raw["out"], FIELDS)
        elif kind == "n":
            nd["req"] = []
            nd["gen"] = _subset(raw["out"] % 7 + 1, FIELDS)
        else:  # g
            nd["req"] = []
            nd["gen"] = [FIELDS[raw["out"] % 3]]
        for f in nd["gen"]:
            if f not in defined:
                defined.append(f)
        nodes.append(nd)
    defined_sorted = [f for f in FIELDS if f in defined]
    sink = _subset(case["sink"] % ((1 << len(defined_sorted)) - 1) + 1, defined_sorted)
    nodes.append(dict(kind="sink", gen=[], req=sink, fifo=case["sink_fifo"]))
    allow_unused, allow_empty = case["allow_unused"], case["allow_empty"]

    def analyse():
        """Independent liveness computation: (unused generated fields, exists an empty point)."""
        live = set()
        unused = []
        empties = False
        for i in reversed(range(len(nodes))):
            if i < len(nodes) - 1 and not live:
                empties = True
            nd = nodes[i]
            for f in nd["gen"]:
                if f not in live:
                    unused.append((i, f))
            live -= set(nd["gen"])
            live |= set(nd["req"])
        return unused, empties

    if not allow_unused:
        # repair towards a pipeline valid under the default flags: the sink / the overwriting function reads the field
        for _ in range(8):
            unused, _e = analyse()
            if not unused:
                break
            progress = False
            for i, f in unused:
                later = [j for j in range(i + 1, len(nodes)) if f in nodes[j]["gen"]]
                if not later:
                    if f not in nodes[-1]["req"]:
                        nodes[-1]["req"] = [g for g in FIELDS if g in nodes[-1]["req"] or g == f]
                        progress = True
                elif nodes[later[0]]["kind"] in "fh" and f not in nodes[later[0]]["req"]:
                    nd = nodes[later[0]]
                    nd["req"] = [g for g in FIELDS if g in nd["req"] or g == f]
                    progress = True
            if not progress:
                break
    unused, empties = analyse()
    if unused:
        allow_unused = True
    if empties:
        allow_empty = True
    return dict(
        w=w,
        nodes=nodes,
        allow_unused=allow_unused,
        allow_empty=allow_empty,
        ext_clear=int(case["ext_clear"]),
        ext_clear_same_name=bool(case.get("ext_clear_same_name", False)),
        src_nodep=bool(case.get("src_nodep", False)),
    )


# ------------------------------------------------------------------------------------------------ design under test


def _make_fn(names, body):
    """A python function whose parameters are exactly `names` (PipelineBuilder.stage inspects the signature)."""
    src = "lambda " + ", ".join(names) + ": _body(dict(" + ", ".join(f"{n}={n}" for n in names) + "))"
    return eval(src, {"_body": body})


def build(spec):
    from amaranth import Elaboratable, Signal, unsigned
    from amaranth.lib.data import StructLayout
    from transactron import Method, TModule, def_method
    from transactron.lib.pipeline import PipelineBuilder

    w, nodes = spec["w"], spec["nodes"]

    def lay(fs):
        return [(f, unsigned(w[f])) for f in fs]

    def affine(nd, vals, extra=0):
        e = nd["k"] + extra
        for f in nd["req"]:
            e = e + vals[f] * nd["coef"][f]
        return e

    class Helper(Elaboratable):
        def __init__(self, j, nd):
            self.nd = nd
            self.rdy = Signal(name=f"hrdy{j}")
            self.ran = Signal(name=f"hran{j}")
            self.seen = Signal(StructLayout({f: unsigned(w[f]) for f in nd["req"]}), name=f"hseen{j}")
            self.compute = Method(i=lay(nd["req"]), o=lay(nd["gen"]), name=f"compute{j}")

        def elaborate(self, platform):
            m = TModule()
            nd = self.nd
            cnt = Signal(8)

            @def_method(m, self.compute, ready=self.rdy)
            def _(arg):
                m.d.comb += self.ran.eq(1)
                for f in nd["req"]:
                    m.d.top_comb += self.seen[f].eq(arg[f])
                if nd["kind"] == "g":
                    m.d.sync += cnt.eq(cnt + 1)
                    return {nd["gen"][0]: affine(nd, {}, cnt * 5)}
                if nd["gen"]:
                    return {nd["gen"][0]: affine(nd, arg)}

            return m

    class P(Elaboratable):
        def __init__(self):
            self.write = Method(i=lay(nodes[0]["gen"]))
            self.read = Method(o=lay(nodes[-1]["req"]))
            self.clear = Method()
            self.stall = [Signal(name=f"stall{j}") for j in range(len(nodes))]
            self.ran = {}
            self.seen = {}
            self.helpers = {}
            self.ext_clear_ran = Signal(max(1, spec["ext_clear"]))
            for j, nd in enumerate(nodes):
                if nd["kind"] in "xn":
                    setattr(self, f"ext{j}", Method(i=lay(nd["gen"]), o=lay(nd["req"]), name=f"ext{j}"))
                elif nd["kind"] in "hg":
                    self.helpers[j] = Helper(j, nd)
                elif nd["kind"] == "f":
                    self.ran[j] = Signal(name=f"fran{j}")
                    self.seen[j] = Signal(StructLayout({f: unsigned(w[f]) for f in nd["req"]}), name=f"fseen{j}")

        def elaborate(self, platform):
            m = TModule()
            m.submodules.pipe = pb = PipelineBuilder(allow_unused=spec["allow_unused"], allow_empty=spec["allow_empty"])
            for j, nd in enumerate(nodes):
                if nd["fifo"]:
                    pb.fifo(depth=nd["fifo"])
                rdy = ~self.stall[j]
                kind = nd["kind"]
                if kind == "src":
                    pb.add_external(self.write, ready=rdy, no_dependency=spec["src_nodep"])
                elif kind == "sink":
                    pb.add_external(self.read, ready=rdy)
                elif kind == "x":
                    pb.add_external(getattr(self, f"ext{j}"), ready=rdy)
                elif kind == "n":
                    pb.add_external(getattr(self, f"ext{j}"), ready=rdy, no_dependency=True)
                elif kind in "hg":
                    h = self.helpers[j]
                    m.submodules[f"helper{j}"] = h
                    pb.call_method(h.compute, ready=rdy, no_dependency=(kind == "g"))
                else:

                    def mk(j, nd):
                        def body(vals):
                            m.d.comb += self.ran[j].eq(1)
                            for f in nd["req"]:
                                m.d.top_comb += self.seen[j][f].eq(vals[f])
                            if nd["gen"]:
                                return {nd["gen"][0]: affine(nd, vals)}

                        return body

                    body = mk(j, nd)
                    if nd["style"] == 0:
                        pb.stage(m, o=lay(nd["gen"]), ready=rdy)(_make_fn(nd["req"], body))
                    else:

                        def mk_arg(body, nd):
                            return lambda arg: body({f: arg[f] for f in nd["req"]})

                        pb.stage(m, o=lay(nd["gen"]), i=lay(nd["req"]), ready=rdy)(mk_arg(body, nd))
            for hk in range(spec["ext_clear"]):
                hook = Method(name="clear" if spec["ext_clear_same_name"] else f"ext_clear_hook{hk}")

                def mk_hook(hk, hook):
                    @def_method(m, hook)
                    def _():
                        m.d.comb += self.ext_clear_ran[hk].eq(1)

                mk_hook(hk, hook)
                pb.add_external_clear(hook)
            self.clear.provide(pb.clear)
            return m

    return P()


# ------------------------------------------------------------------------------------------------ oracle


def run_case(case) -> Result:
    spec = resolve(case)
    w, nodes = spec["w"], spec["nodes"]
    n_nodes = len(nodes)
    mids = nodes[1:-1]
    res = Result(labels=[f"mid{len(mids)}"])
    for k in sorted({nd["kind"] for nd in mids}):
        res.labels.append(f"kind_{k}")
    if any(nd["fifo"] for nd in nodes):
        res.labels.append("fifo")
    if spec["allow_unused"]:
        res.labels.append("allow_unused")
    if spec["src_nodep"]:
        res.labels.append("src_nodep")
    if spec["allow_empty"]:
        res.labels.append("allow_empty")
    if not spec["allow_unused"] and not spec["allow_empty"]:
        res.labels.append("default_flags")
    if any(f in nd["req"] for nd in mids for f in nd["gen"]):
        res.labels.append("overwrite_own_input")
    h = Harness(lambda: build(spec))
    dut = h.dut

    def mask(f, v):
        return v & ((1 << w[f]) - 1)

    def affine(nd, vals, extra=0):
        e = nd["k"] + extra
        for f in nd["req"]:
            e += vals[f] * nd["coef"][f]
        return e

    ext_names = [f"ext{j}" for j, nd in enumerate(nodes) if nd["kind"] in "xn"]
    capacity = sum((nd["fifo"] or 1) for nd in nodes[1:]) + sum(1 for nd in nodes if nd["kind"] in "ng")
    capacity += int(spec["src_nodep"])
    drain = 2 * (capacity + n_nodes) + 6
    hist = list(case["history"])
    n_user = len(hist)
    observable = [j for j, nd in enumerate(nodes) if nd["kind"] in ("src", "f", "h", "x", "sink")]
    flags = dict(stall_inflight2=False, clear_inflight=False, clear=False, stage_stalled_with_input=False)
    counters = dict(delivered=0, accepted=0, killed=0)

    async def tb(ctx):
        ios = h.ios(["write", "read", "clear"] + ext_names)
        samples = []
        sample_ix = {}
        for j, nd in enumerate(nodes):
            if nd["kind"] == "f":
                sample_ix[j] = len(samples)
                samples += [dut.ran[j], dut.seen[j]]
            elif nd["kind"] in "hg":
                sample_ix[j] = len(samples)
                samples += [dut.helpers[j].ran, dut.helpers[j].seen]
        ec_ix = len(samples)
        samples.append(dut.ext_clear_ran)
        # per-epoch state
        passed = {j: [] for j in observable}  # j -> list of (cycle, vals after node j)
        supply = {j: [] for j, nd in enumerate(nodes) if nd["kind"] in "ng"}  # j -> list of (cycle, values)
        gen_runs = {j: 0 for j, nd in enumerate(nodes) if nd["kind"] == "g"}
        epoch_start = -1

        def arrive(j, t):
            """Model state of the item that passes observable node j in cycle t (or an error string)."""
            k = len(passed[j])
            jp = max(o for o in observable if o < j)
            if k >= len(passed[jp]):
                return None, (
                    f"cycle {t}: node {j} ({nodes[j]['kind']}) executed for item #{k} since the last clear, but node "
                    f"{jp} has only passed {len(passed[jp])} items"
                )
            tp, vals = passed[jp][k]
            if tp >= t:
                return None, f"cycle {t}: node {j} executed for item #{k} which passed node {jp} only in cycle {tp}"
            vals = dict(vals)
            for u in range(jp + 1, j):  # unobservable no_dependency nodes in between
                if k >= len(supply[u]):
                    return None, (
                        f"cycle {t}: node {j} executed for item #{k} but no_dependency node {u} was only given "
                        f"{len(supply[u])} values since the last clear"
                    )
                ts, sv = supply[u][k]
                if ts >= t:
                    return None, f"cycle {t}: node {j} executed for item #{k} whose injected value arrived in {ts}"
                vals.update(sv)
            return vals, None

        for t in range(n_user + drain):
            draining = t >= n_user
            if draining:
                rec = {
                    "write": None,
                    "read": True,
                    "clear": False,
                    "stall": [0] * n_nodes,
                    "hrdy": [1] * len(mids),
                    "ext": [[(t * 7 + 3 * j) & 255 for _ in FIELDS] if nd["kind"] in "xn" else None for nd in mids],
                }
            else:
                rec = hist[t]
            for j in range(n_nodes):
                ctx.set(dut.stall[j], rec["stall"][j])
            for j, hp in dut.helpers.items():
                ctx.set(hp.rdy, rec["hrdy"][j - 1])
            reqs = {}
            if rec["write"] is not None:
                reqs["write"] = {f: mask(f, v) for f, v in zip(FIELDS, rec["write"]) if f in nodes[0]["gen"]}
            if rec["read"]:
                reqs["read"] = {}
            if rec["clear"]:
                reqs["clear"] = {}
            for j, nd in enumerate(nodes):
                if nd["kind"] in "xn" and rec["ext"][j - 1] is not None:
                    reqs[f"ext{j}"] = {f: mask(f, v) for f, v in zip(FIELDS, rec["ext"][j - 1]) if f in nd["gen"]}
            results, sampled = await step(ctx, ios, reqs, samples)
            res.stats["cycles"] = res.stats.get("cycles", 0) + 1
            for name, r in results.items():
                if r is not None and name not in reqs:
                    return res.fail(f"cycle {t}: {name} ran without being requested")
            if "clear" in reqs and results["clear"] is None:
                return res.fail(f"cycle {t}: clear was requested but not accepted")
            clear_now = results["clear"] is not None
            if sampled[ec_ix] != (((1 << spec["ext_clear"]) - 1) if clear_now else 0):
                return res.fail(
                    f"cycle {t}: external clear hooks ran=0b{sampled[ec_ix]:b} (one bit per hook, {spec['ext_clear']} "
                    f"hooks registered) but clear accepted={clear_now}"
                )
            inflight = len(passed[0]) - len(passed[n_nodes - 1])
            stalled_now = False
            # ---- node by node
            for j, nd in enumerate(nodes):
                kind = nd["kind"]
                stall = rec["stall"][j]
                if kind == "src":
                    if results["write"] is not None:
                        if stall and not spec["src_nodep"]:
                            return res.fail(f"cycle {t}: source accepted although its ready input is 0")
                        passed[0].append((t, dict(reqs["write"])))
                        counters["accepted"] += 1
                elif kind in "ng":
                    if kind == "n":
                        if results[f"ext{j}"] is not None:
                            supply[j].append((t, dict(reqs[f"ext{j}"])))
                    else:
                        ran = sampled[sample_ix[j]]
                        if ran:
                            if not rec["hrdy"][j - 1]:
                                return res.fail(f"cycle {t}: generator helper of node {j} ran while not ready")
                            f = nd["gen"][0]
                            supply[j].append((t, {f: mask(f, affine(nd, {}, (gen_runs[j] & 255) * 5))}))
                            gen_runs[j] += 1
                else:
                    if kind == "sink":
                        ran, obs = results["read"] is not None, results["read"]
                    elif kind == "x":
                        ran, obs = results[f"ext{j}"] is not None, results[f"ext{j}"]
                    else:
                        ran, obs = bool(sampled[sample_ix[j]]), sampled[sample_ix[j] + 1]
                    if not ran:
                        jp = max(o for o in observable if o < j)
                        if stall and len(passed[jp]) > len(passed[j]):
                            stalled_now = True
                        continue
                    if stall:
                        return res.fail(f"cycle {t}: node {j} ({kind}) executed although its ready input is 0")
                    if kind == "h" and not rec["hrdy"][j - 1]:
                        return res.fail(f"cycle {t}: helper method of node {j} ran while not ready")
                    vals, err = arrive(j, t)
                    if err:
                        return res.fail(err)
                    exp = {f: vals[f] for f in nd["req"]}
                    if obs != exp:
                        return res.fail(
                            f"cycle {t}: node {j} ({kind}) saw {obs} for item #{len(passed[j])} since the last clear, "
                            f"expected {exp}"
                        )
                    if kind in "fh" and nd["gen"]:
                        f = nd["gen"][0]
                        vals[f] = mask(f, affine(nd, vals))
                    elif kind == "x":
                        vals.update(reqs[f"ext{j}"])
                    passed[j].append((t, vals))
                    if kind == "sink":
                        counters["delivered"] += 1
            if not rec["read"] and inflight >= 1:
                stalled_now = True
            if stalled_now and inflight >= 2:
                flags["stall_inflight2"] = True
            if stalled_now and inflight >= 1:
                flags["stage_stalled_with_input"] = True
            if clear_now:
                flags["clear"] = True
                lost = len(passed[0]) - len(passed[n_nodes - 1])
                if lost > 0:
                    # only items accepted before this cycle were really in flight, the rest died at the door
                    flags["clear_inflight"] = flags["clear_inflight"] or any(tc < t for tc, _ in passed[0][-lost:])
                    counters["killed"] += lost
                for lst in passed.values():
                    lst.clear()
                for lst in supply.values():
                    lst.clear()
                epoch_start = t
        # ---- after the drain: everything accepted since the last clear passed every stage and was delivered
        n0 = len(passed[0])
        for j in observable:
            if len(passed[j]) != n0:
                return res.fail(
                    f"after a drain of {drain} cycles: {n0} items were accepted since the last clear (cycle "
                    f"{epoch_start}) but node {j} ({nodes[j]['kind']}) passed {len(passed[j])}"
                )

    h.run(tb)
    res.labels += [k for k, v in flags.items() if v]
    res.stats["delivered"] = counters["delivered"]
    res.stats["killed"] = counters["killed"]
    if counters["delivered"] >= 3:
        res.labels.append("delivered>=3")
    res.nontrivial = (
        len(mids) >= 1
        and counters["accepted"] >= 3
        and counters["delivered"] >= 1
        and (flags["stall_inflight2"] or flags["clear_inflight"])
    )
    return res
