"""C02 - explicitly conflicting transactions and methods never run together."""

from hypothesis import strategies as st

from tv.designs import gen_conflict_graph_spec, gen_spec
from tv.props._core_a import run_design, tier_opts

ID = "C02"
ENGINE = "A"
RULE = (
    "case = generated design (as C01) with 1-3 add_conflict relations between transactions, methods, methods reached "
    "through nested calls or aliases, with all three priorities, plus schedule_before, under both schedulers, all / 256 "
    "drawn valuations; oracle = for each add_conflict(a, b) never run(a) and run(b) in one valuation; pairs whose two "
    "bodies are reached by ONE running transaction form the class 'same_transaction' (known finding F7) and are keyed "
    "separately; non-trivial = some valuation where a transaction reaching a and a different transaction reaching b "
    "are both fully enabled"
)
ASSUMPTIONS = ["amaranth.sim.Simulator is the trusted execution model"]
TECHNIQUE = "grammar-based design generation + exhaustive input valuations against a semantic predicate"
KEY_SAME = "add_conflict:same_transaction"


def budget(tier):
    return dict(examples=70, seconds=45) if tier == "quick" else dict(examples=300, seconds=420)


def strategy(tier):
    general = gen_spec(**{**tier_opts(tier), **dict(allow_rels=True, min_rels=1, rel_kinds=("conf", "conf", "conf", "sb"))})
    # one case in four is a relation-heavy design (many small transactions, hub / chain conflict topologies)
    graph = st.sampled_from(["eager", "rr"]).flatmap(lambda sc: gen_conflict_graph_spec(sched=sc, same_trans=True))
    return st.integers(0, 3).flatmap(lambda k: graph if k == 3 else general)


def run_case(case):
    both_enabled = [0]

    def extra(ob, orc):
        an = orc.an
        for rel in case["rels"]:
            if rel[0] != "conf":
                continue
            ea = [t for t in an.reaching_transactions(rel[1]) if orc.enabled(t, ob)[0]]
            eb = [t for t in an.reaching_transactions(rel[2]) if orc.enabled(t, ob)[0]]
            if any(x != y for x in ea for y in eb):
                both_enabled[0] += 1
        return None

    res, an, orc, exc = run_design(case, ["c02"], extra_visit=extra)
    if orc is None:
        return res
    confs = [r for r in case["rels"] if r[0] == "conf"]
    if not confs:
        res.labels.append("no_conflict_relation")
    for r in confs:
        res.labels.append("prio_" + r[3])
        if set(an.reaching_transactions(r[1])) & set(an.reaching_transactions(r[2])):
            res.labels.append("same_transaction_pair")
        if an.bodies[r[1]]["kind"] == "M" or an.bodies[r[2]]["kind"] == "M":
            res.labels.append("method_conflict")
    if res.violation is not None and getattr(orc, "c02_same_transaction", False):
        res.vkey = KEY_SAME
    res.stats["both_sides_enabled_valuations"] = both_enabled[0]
    res.nontrivial = both_enabled[0] > 0
    return res
