"""Shared glue for the engine-A properties (C01-C08): run one generated design under all its valuations."""

from __future__ import annotations

from tv.core import Result, short_exc
from tv.designs import Oracle, analyze, simulate, try_build


def tier_opts(tier: str) -> dict:
    """size bounds of the generated designs per tier"""
    if tier == "thorough":
        return dict(max_space=2048, nvals=768, max_methods=5)
    return dict(max_space=512, nvals=256)


def shape_labels(an) -> list[str]:
    labs = [an.spec.get("sched", "eager")]
    kinds = {stc["kind"] for stc in an.structs.values()}
    labs += sorted(kinds)
    if any(an.parent[t] is not None for t in an.transactions):
        labs.append("nested")
    if any(s["s"].get("hops") for s in an.sites):
        labs.append("alias")
    if any(s["en"] for s in an.sites):
        labs.append("enable_call")
    if any(len(c) >= 2 for t in an.transactions for c in an.chains(t)):
        labs.append("depth>=2")
    if any(b.get("nonex") for b in an.bodies.values()):
        labs.append("nonexclusive")
    if len({b["mod"] for b in an.spec["bodies"]}) > 1:
        labs.append("two_modules")
    if an.spec.get("rels"):
        labs.append("relations")
    if an.spec.get("tops"):
        labs.append("bodies_under_top_level_if")
    if any(b.get("rdep") for b in an.bodies.values()):
        labs.append("run_dependent_ready")
    if any(an.parent[x] is not None for x in an.methods):
        labs.append("method_defined_inside_body")
    if any(r[0] == "sbr" for r in an.spec.get("rels", [])):
        labs.append("ready_dependent_schedule_before")
    if any(b.get("val") is not None for b in an.bodies.values()):
        labs.append("validate_arguments")
    return labs


def run_design(case, checks, *, tick=None, extra_visit=None):
    """returns (Result, Analysis, Oracle | None).  `checks` = names of Oracle.check_* predicates that count as
    violations of the calling property."""
    an = analyze(case)
    res = Result(labels=shape_labels(an))
    built, exc = try_build(case, an)
    if built is None:
        res.labels.append("elaboration_failed")
        res.stats["elaboration_failed"] = 1
        return res, an, None, short_exc(exc)
    orc = Oracle(an)
    space = an.space()
    if case.get("nvals") is None:
        vals = range(space)
        res.labels.append("exhaustive_valuations")
    else:
        vals = [v % space for v in case["vals"]]
    if tick is None:
        tick = bool(an.wits) or case.get("sched") == "rr"
    fns = [getattr(orc, "check_" + c) for c in checks]
    n = [0]

    def visit(ob):
        n[0] += 1
        for f in fns:
            msg = f(ob)
            if msg is not None:
                return msg
        if extra_visit is not None:
            return extra_visit(ob, orc)
        return None

    msg = simulate(built, vals, visit, tick=tick)
    res.stats["valuations"] = n[0]
    if msg is not None:
        res.fail(msg)
    return res, an, orc, None
