"""C06 - body effects follow the run signal (comb / sync / av_comb / top_comb semantics)."""

from tv.designs import gen_spec
from tv.props._core_a import run_design, tier_opts

ID = "C06"
ENGINE = "A"
RULE = (
    "case = generated design with witness statements (one comb, av_comb, top_comb assignment and one sync counter "
    "each) at random depths inside transaction/method bodies, nested transactions, If/Elif/Else, Switch/Case/Default and "
    "FSM states (state registers poked to every state); every valuation is followed by a clock tick; oracle = comb "
    "witness == all enclosing bodies run (observed) and all enclosing ordinary conditions hold; the sync counter "
    "increments exactly then; av_comb witness == ordinary conditions only; top_comb witness == 1; non-trivial = a "
    "witness under >= 1 ordinary structure whose body did NOT run in some valuation where its condition held"
)
ASSUMPTIONS = ["amaranth.sim.Simulator is the trusted execution model"]
TECHNIQUE = "grammar-based design generation + exhaustive input valuations against a semantic predicate"


def budget(tier):
    return dict(examples=70, seconds=45) if tier == "quick" else dict(examples=300, seconds=420)


def strategy(tier):
    return gen_spec(**{**tier_opts(tier), **dict(allow_rels=False, allow_wit=True, wit_bias=True, allow_data=False, allow_alias=False, sched="eager", max_methods=3, fsm_rate=3)})


def run_case(case):
    hits = [0]

    def extra(ob, orc):
        an = orc.an
        for w in an.wits:
            if any(e[0] != "B" for e in w["ctx"]) and an.cond(w["ctx"], ob.val):
                if not all(ob.run[b] for b in an.enclosing_bodies(w["ctx"])):
                    hits[0] += 1
        return None

    res, an, orc, exc = run_design(case, ["c06"], extra_visit=extra, tick=True)
    if orc is None:
        return res
    res.stats["witnesses"] = len(an.wits)
    res.stats["cond_true_body_not_running"] = hits[0]
    if not an.wits:
        res.labels.append("no_witness")
    for w in an.wits:
        kinds = {an.structs[e[0]]["kind"] for e in w["ctx"] if e[0] != "B"}
        for k in kinds:
            res.labels.append("wit_under_" + k)
        if len(an.enclosing_bodies(w["ctx"])) > 1:
            res.labels.append("wit_in_nested_body")
    res.nontrivial = hits[0] > 0
    return res
