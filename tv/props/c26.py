"""C26 - PreservedOrderAllocator tracks allocation order."""

from hypothesis import strategies as st

from tv.core import Result
from tv.cyc import Harness, draw_second, second_fold, second_request, step
from tv.phases import phased_history

ID = "C26"
ENGINE = "B"
TECHNIQUE = "cycle driver + ordered-list reference model"
RULE = (
    "case = (entries 1..8 (thorough ..11), one case in four 9..20 (thorough ..34), history of per-cycle request vectors alloc / free(selector into the "
    "allocated identifiers) / free_idx(selector below the used count) / order / clear); model = python list of the "
    "allocated identifiers oldest->newest stepped with the observed accepted set, `order` compared in every cycle in "
    "which it is requested (most cycles); non-trivial = some cycle accepted alloc together with free/free_idx of a "
    "middle element (0 < position < used-1); labels additionally count alloc refused because all identifiers are in "
    "use, free racing free_idx, clear together with alloc/free"
)
RULE += (
    "  In one case of three a SECOND, independent caller (its own transaction) of one exclusive method (alloc / free / free_idx) requests "
    "in some of the cycles in which the first caller does, with the same arguments: at most one of the two may be served "
    "and the outcome must be that of a single request."
)

ASSUMPTIONS = [
    "amaranth.sim.Simulator is the trusted execution model",
    "readiness is judged behaviourally: a requested call that is not accepted counts as 'not ready'",
    "free is only requested for identifiers allocated before the cycle, free_idx only for indices below the used "
    "count before the cycle",
    "free and free_idx conflict (free calls free_idx): when both are requested exactly one of them runs, which one "
    "is not specified; order is unconditionally ready",
    "a clear accepted in a cycle wins over alloc/free of that cycle and restores order = identity, used = 0",
    "which free identifier alloc returns is not specified beyond: not allocated before the cycle",
]


PROFILES = {
    "fill": {"alloc": 7, "free": 1, "free_idx": 1},
    "churn": {"alloc": 7, "free": 3, "free_idx": 4, "clear": 1},
    "drain": {"alloc": 2, "free": 5, "free_idx": 5, "clear": 1},
}


def budget(tier):
    return dict(examples=100, seconds=40) if tier == "quick" else dict(examples=1000, seconds=420)


@st.composite
def strategy(draw, tier="quick"):
    emax = 8 if tier == "quick" else 11
    # small sizes stay in (entries 1 and 2 have degenerate shift logic) but most cases can hold a middle element
    # the component imposes no upper limit: one case in four is larger than one 8-entry bank (sizes just above 8 and
    # above 16 exercise wide position searches; freeing an identifier at a position >= 8 needs >= 9 allocated)
    big = st.integers(9, 20 if tier == "quick" else 34)
    entries = draw(st.one_of(st.integers(1, emax), st.integers(3, emax), st.integers(3, emax), big))
    hi = 60 if tier == "quick" else 180
    # raw integers: free [selector], free_idx [selector, mode], clear [thinning]
    methods = {"alloc": [], "free": [256], "free_idx": [256, 4], "clear": [10]}
    hist = draw(phased_history(methods, PROFILES, 12, hi, first=("fill", "churn", "free")))
    # `order` is requested in (almost) every cycle; a per-case modulus leaves a few cycles without it
    order_skip = draw(st.integers(0, 9))
    second, mask = draw_second(draw, ["alloc", "free", "free_idx"])
    return {"entries": entries, "order_skip": order_skip, "history": hist, "second": second, "second_mask": mask}


def run_case(case) -> Result:
    from transactron.lib.allocators import PreservedOrderAllocator

    E = case["entries"]
    skip = case["order_skip"]
    res = Result(labels=[f"entries{E}"])
    second = case.get("second")
    h = Harness(lambda: PreservedOrderAllocator(E), second_callers=(second,) if second else ())
    if second:
        res.labels.append("two_callers_of_" + second)
    flags = dict(
        mid_free_with_alloc=False, mid_free=False, alloc_full_refused=False, alloc_and_free=False, free_vs_free_idx=False,
        free_oldest=False, free_newest=False, clear=False, clear_with_ops=False, was_full=False, reuse=False,
    )

    async def tb(ctx):
        ios = h.ios(["alloc", "free", "free_idx", "order", "clear"] + ([second + "_b"] if second else []))
        lst = []  # allocated identifiers, oldest -> newest
        ever_freed = set()
        after_clear = False
        for cyc, rec in enumerate(case["history"]):
            reqs = {}
            if rec.get("alloc") is not None:
                reqs["alloc"] = {}
            if rec.get("free") is not None and lst:
                reqs["free"] = {"ident": lst[rec["free"][0] % len(lst)]}
            if rec.get("free_idx") is not None and lst:
                sel, mode = rec["free_idx"]
                # mode 0: oldest, 1: newest, 2: anywhere, 3: a middle position when there is one
                if mode == 3 and len(lst) >= 3:
                    idx = 1 + sel % (len(lst) - 2)
                else:
                    idx = 0 if mode == 0 else len(lst) - 1 if mode == 1 else sel % len(lst)
                reqs["free_idx"] = {"idx": idx}
            if not (skip and cyc % (skip + 3) == skip):
                reqs["order"] = {}
            if rec.get("clear") is not None and rec["clear"][0] == 0:
                reqs["clear"] = {}
            second_request(case, reqs, cyc)
            results, _ = await step(ctx, ios, reqs)
            res.stats["cycles"] = res.stats.get("cycles", 0) + 1
            msg = second_fold(case, reqs, results)
            if msg:
                return res.fail(f"cycle {cyc}: {msg}")
            where = f"cycle {cyc} (allocated oldest->newest {lst}, entries {E})"
            for nm, r in results.items():
                if r is not None and nm not in reqs:
                    return res.fail(f"{where}: {nm} ran without being requested")
            # order
            if "order" in reqs:
                o = results["order"]
                if o is None:
                    return res.fail(f"{where}: order requested but not accepted")
                perm = list(o["order"])
                if o["used"] != len(lst):
                    return res.fail(f"{where}: order reports used={o['used']}")
                if sorted(perm) != list(range(E)):
                    return res.fail(f"{where}: order {perm} is not a permutation")
                if perm[: len(lst)] != lst:
                    return res.fail(f"{where}: order {perm} does not start with the allocated identifiers")
                if after_clear and perm != list(range(E)):
                    return res.fail(f"{where}: order after clear is {perm}, initial state is the identity")
            after_clear = False
            # alloc
            a = results["alloc"]
            if "alloc" in reqs:
                ready = len(lst) < E
                if (a is not None) != ready:
                    return res.fail(f"{where}: alloc requested, accepted={a is not None}, expected ready={ready}")
                if not ready:
                    flags["alloc_full_refused"] = True
            if a is not None and a["ident"] in lst:
                return res.fail(f"{where}: alloc returned identifier {a['ident']} which is allocated")
            if a is not None and not (0 <= a["ident"] < E):
                return res.fail(f"{where}: alloc returned identifier {a['ident']} out of range")
            # free / free_idx
            f, fi = results["free"] is not None, results["free_idx"] is not None
            if f and fi:
                return res.fail(f"{where}: free and free_idx both ran in one cycle")
            if ("free" in reqs or "free_idx" in reqs) and not (f or fi):
                return res.fail(f"{where}: free/free_idx requested but neither was accepted")
            if "free" in reqs and "free_idx" in reqs:
                flags["free_vs_free_idx"] = True
            new = list(lst)
            pos = None
            if f:
                pos = lst.index(reqs["free"]["ident"])
            if fi:
                pos = reqs["free_idx"]["idx"]
            if pos is not None:
                ever_freed.add(new.pop(pos))
                if 0 < pos < len(lst) - 1:
                    flags["mid_free"] = True
                    if a is not None:
                        flags["mid_free_with_alloc"] = True
                if pos == 0:
                    flags["free_oldest"] = True
                if pos == len(lst) - 1:
                    flags["free_newest"] = True
                if a is not None:
                    flags["alloc_and_free"] = True
            if a is not None:
                new.append(a["ident"])
                if a["ident"] in ever_freed:
                    flags["reuse"] = True
            if "clear" in reqs:
                if results["clear"] is None:
                    return res.fail(f"{where}: clear requested but not accepted")
                flags["clear"] = True
                if a is not None or pos is not None:
                    flags["clear_with_ops"] = True
                new = []
                after_clear = True
            if len(new) == E:
                flags["was_full"] = True
            lst = new
        # final state
        results, _ = await step(ctx, ios, {"order": {}})
        o = results["order"]
        if o is None or o["used"] != len(lst) or list(o["order"])[: len(lst)] != lst or sorted(o["order"]) != list(range(E)):
            return res.fail(f"final order {o}, model allocated {lst}")

    h.run(tb)
    for k, v in flags.items():
        if v:
            res.labels.append(k)
    res.nontrivial = flags["mid_free_with_alloc"]
    return res
