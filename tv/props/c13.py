"""C13 - simultaneous methods run together and exchange data."""

from amaranth import *
from amaranth.sim import Simulator
from hypothesis import strategies as st

from tv.core import Result, setup_paths

setup_paths()

from transactron import Method, TModule, Transaction  # noqa: E402
from transactron.core import TransactronContextElaboratable  # noqa: E402
from transactron.lib import Connect  # noqa: E402
from transactron.utils.dependencies import DependencyContext, DependencyManager  # noqa: E402

ID = "C13"
ENGINE = "A"
RULE = (
    "case = 1-2 Connect instances (forward / reverse layouts of 0-3 bits), each with 1-2 writer and 1-3 reader "
    "transactions that additionally call 0-2 methods with ready inputs (writers and readers draw them from disjoint "
    "pools, because a shared exclusive callee is rightly rejected as unsatisfiable simultaneity), optionally a middle "
    "transaction reading Connect 0 and writing Connect 1 (transitivity), optionally a pair of user methods related by "
    "simultaneous(); all valuations of the ready inputs are enumerated (data values are a fixed function of the "
    "valuation index); oracle = read.run == write.run for every Connect and a.run == b.run for the explicit pair; when "
    "they run the reader's result is the active writer's argument and the writer's result the active reader's "
    "argument, also across the chained middle transaction; non-trivial = a valuation where one side's caller is fully "
    "enabled and the other side has no enabled caller"
)
ASSUMPTIONS = ["amaranth.sim.Simulator is the trusted execution model"]
TECHNIQUE = "generated Connect/simultaneous() topologies + exhaustive ready valuations against run-equality and data-exchange predicates"


def budget(tier):
    return dict(examples=25, seconds=45) if tier == "quick" else dict(examples=300, seconds=420)


@st.composite
def strategy(draw, tier="quick"):
    nconn = draw(st.integers(1, 2))
    chain = nconn == 2 and draw(st.booleans())
    conns = []
    for k in range(nconn):
        nw = draw(st.integers(1, 2))
        nr = draw(st.integers(1, 2 if nconn == 2 else 3))
        conns.append(
            dict(
                fw=draw(st.integers(0, 3)),
                rw=draw(st.integers(0, 3)),
                writers=[sorted(draw(st.sets(st.integers(0, 1), max_size=2))) for _ in range(nw)],
                readers=[sorted(draw(st.sets(st.integers(0, 1), max_size=2))) for _ in range(nr)],
                wrdy=[draw(st.booleans()) for _ in range(nw)],
                rrdy=[draw(st.booleans()) for _ in range(nr)],
            )
        )
    if chain:
        # the middle transaction forwards data: layouts must agree
        conns[1]["fw"] = conns[0]["fw"]
        conns[1]["rw"] = conns[0]["rw"]
    pair = draw(st.integers(0, 2)) == 0
    return dict(conns=conns, chain=chain, mid=sorted(draw(st.sets(st.integers(0, 1), max_size=1))) if chain else [],
                pair=pair, pair_calls=[sorted(draw(st.sets(st.integers(0, 1), max_size=1))) for _ in range(2)] if pair else [])


class D(Elaboratable):
    def __init__(self, spec):
        self.spec = spec
        self.ctrl = []  # control inputs (1 bit each)
        self.pools = {}  # role -> [(Method, ready signal)]
        self.trs = {}  # name -> Transaction
        self.rdy = {}
        self.arg = {}
        self.res = {}

    def used(self):
        sp = self.spec
        u = set()
        for k, c in enumerate(sp["conns"]):
            if not (sp["chain"] and k == 1):
                u |= {(f"W{k}", x) for e in c["writers"] for x in e}
            if not (sp["chain"] and k == 0):
                u |= {(f"R{k}", x) for e in c["readers"] for x in e}
        u |= {("MID", x) for x in sp["mid"]}
        if sp["pair"]:
            u |= {("PA", x) for x in sp["pair_calls"][0]} | {("PB", x) for x in sp["pair_calls"][1]}
        return sorted(u)

    def pool(self, m, role):
        return self.pools[role]

    def elaborate(self, platform):
        m = TModule()
        sp = self.spec
        self.conn = []
        for k, c in enumerate(sp["conns"]):
            con = Connect([("d", c["fw"])], [("r", c["rw"])])
            m.submodules[f"c{k}"] = con
            self.conn.append(con)
        # the extra methods are defined at module level, before any caller
        for role, x in self.used():
            meth = Method(name=f"x_{role}_{x}")
            r = Signal(name=f"xr_{role}_{x}")
            with meth.body(m, ready=r):
                pass
            self.pools.setdefault(role, {})[x] = (meth, r)
        for k, c in enumerate(sp["conns"]):
            con = self.conn[k]
            for i, extra in enumerate(c["writers"]):
                name = f"w{k}_{i}"
                if sp["chain"] and k == 1:
                    continue  # Connect 1 is written by the middle transaction only
                t = Transaction(name=name)
                self.trs[name] = t
                self.rdy[name] = Signal(name=f"rdy_{name}")
                self.arg[name] = Signal(c["fw"], name=f"arg_{name}")
                self.res[name] = Signal(c["rw"], name=f"res_{name}")
                with t.body(m, ready=self.rdy[name] if c["wrdy"][i] else C(1)):
                    m.d.top_comb += self.res[name].eq(con.write(m, d=self.arg[name]).r)
                    for x in extra:
                        self.pool(m, f"W{k}")[x][0](m)
            for i, extra in enumerate(c["readers"]):
                name = f"r{k}_{i}"
                if sp["chain"] and k == 0:
                    continue  # Connect 0 is read by the middle transaction only
                t = Transaction(name=name)
                self.trs[name] = t
                self.rdy[name] = Signal(name=f"rdy_{name}")
                self.arg[name] = Signal(c["rw"], name=f"arg_{name}")
                self.res[name] = Signal(c["fw"], name=f"res_{name}")
                with t.body(m, ready=self.rdy[name] if c["rrdy"][i] else C(1)):
                    m.d.top_comb += self.res[name].eq(con.read(m, r=self.arg[name]).d)
                    for x in extra:
                        self.pool(m, f"R{k}")[x][0](m)
        if sp["chain"]:
            t = Transaction(name="mid")
            self.trs["mid"] = t
            self.rdy["mid"] = Signal(name="rdy_mid")
            with t.body(m, ready=self.rdy["mid"]):
                back = Signal(sp["conns"][0]["rw"], name="mid_back")
                fwd = self.conn[0].read(m, r=back).d
                m.d.top_comb += back.eq(self.conn[1].write(m, d=fwd).r)
                for x in sp["mid"]:
                    self.pool(m, "MID")[x][0](m)
        if sp["pair"]:
            self.pa = Method(name="pa")
            self.pb = Method(name="pb")
            self.pa.simultaneous(self.pb)
            self.rdy["pa"] = Signal(name="rdy_pa")
            self.rdy["pb"] = Signal(name="rdy_pb")
            with self.pa.body(m, ready=self.rdy["pa"]):
                pass
            with self.pb.body(m, ready=self.rdy["pb"]):
                pass
            for nm_, meth, role, calls in (("ta", self.pa, "PA", sp["pair_calls"][0]), ("tb", self.pb, "PB", sp["pair_calls"][1])):
                t = Transaction(name=nm_)
                self.trs[nm_] = t
                self.rdy[nm_] = Signal(name=f"rdy_{nm_}")
                with t.body(m, ready=self.rdy[nm_]):
                    meth(m)
                    for x in calls:
                        self.pool(m, role)[x][0](m)
        return m


def run_case(spec) -> Result:
    res = Result(labels=[f"connects{len(spec['conns'])}"] + (["chain"] if spec["chain"] else []) + (["simultaneous_pair"] if spec["pair"] else []))
    d = D(spec)
    dm = DependencyManager()
    with DependencyContext(dm):
        sim = Simulator(TransactronContextElaboratable(d, dependency_manager=dm))
    ctrl = list(d.rdy.items()) + [(f"x:{role}:{i}", r) for role, lst in sorted(d.pools.items()) for i, (_, r) in sorted(lst.items())]
    names = [n for n, _ in ctrl]
    nb = len(ctrl)
    if nb > 10:
        res.labels.append("sampled_valuations")
    out = [None]
    st_ = dict(vals=0, xfer=0, onesided=0)
    sp = spec

    def callers(k, side):
        if sp["chain"] and ((k == 0 and side == "r") or (k == 1 and side == "w")):
            return [("mid", sp["mid"], "MID", True)]
        c = sp["conns"][k]
        lst = c["writers"] if side == "w" else c["readers"]
        flags = c["wrdy"] if side == "w" else c["rrdy"]
        return [(f"{side}{k}_{i}", extra, f"{side.upper()}{k}", flags[i]) for i, extra in enumerate(lst)]

    async def tb(ctx):
        total = 1 << nb
        step = 1 if nb <= 10 else (total // 1024) | 1
        for v in range(0, total, step):
            val = {}
            for i, (n, sg) in enumerate(ctrl):
                val[n] = (v >> i) & 1
                ctx.set(sg, val[n])
            args = {}
            for j, (n, sg) in enumerate(sorted(d.arg.items())):
                args[n] = (v * 7 + j * 3 + 1) % (1 << len(sg)) if len(sg) else 0
                ctx.set(sg, args[n])
            st_["vals"] += 1
            run = {n: ctx.get(t.run) for n, t in d.trs.items()}

            def enabled(name, extra, role, has_rdy):
                ok = val[f"rdy_{name}"] if False else (val[name] if (has_rdy or name in ("mid",)) else 1)
                return bool(ok) and all(val[f"x:{role}:{x}"] for x in extra)

            for k, con in enumerate(d.conn):
                mw, mr = ctx.get(con.write.run), ctx.get(con.read.run)
                if mw != mr:
                    out[0] = f"Connect {k}: write.run={mw} read.run={mr}; val={val}"
                    return
                ws, rs = callers(k, "w"), callers(k, "r")
                wrun = [c for c in ws if run[c[0]]]
                rrun = [c for c in rs if run[c[0]]]
                if len(wrun) > 1 or len(rrun) > 1:
                    out[0] = f"Connect {k}: more than one writer/reader runs; val={val}"
                    return
                if mw != (len(wrun) == 1) or mr != (len(rrun) == 1):
                    out[0] = f"Connect {k}: method run {mw}/{mr} but running callers {wrun}/{rrun}; val={val}"
                    return
                wen = [c for c in ws if enabled(*c)]
                ren = [c for c in rs if enabled(*c)]
                if mw and not (wen and ren):
                    out[0] = f"Connect {k} transfers although a side has no enabled caller; val={val}"
                    return
                if bool(wen) != bool(ren):
                    st_["onesided"] += 1
                if mw:
                    st_["xfer"] += 1
                    wn, rn = wrun[0][0], rrun[0][0]
                    if not sp["chain"]:
                        if ctx.get(d.res[rn]) != args[wn]:
                            out[0] = f"Connect {k}: reader {rn} got {ctx.get(d.res[rn])}, writer {wn} passed {args[wn]}; val={val}"
                            return
                        if ctx.get(d.res[wn]) != args[rn]:
                            out[0] = f"Connect {k}: writer {wn} got {ctx.get(d.res[wn])}, reader {rn} passed {args[rn]}; val={val}"
                            return
            if sp["chain"] and run["mid"]:
                w = [n for n in run if n.startswith("w0_") and run[n]]
                r = [n for n in run if n.startswith("r1_") and run[n]]
                if len(w) != 1 or len(r) != 1:
                    out[0] = f"chain: mid runs but writers {w} readers {r}; val={val}"
                    return
                if ctx.get(d.res[r[0]]) != args[w[0]]:
                    out[0] = f"chain: reader {r[0]} got {ctx.get(d.res[r[0]])}, writer {w[0]} passed {args[w[0]]}"
                    return
                if ctx.get(d.res[w[0]]) != args[r[0]]:
                    out[0] = f"chain: writer {w[0]} got {ctx.get(d.res[w[0]])}, reader {r[0]} passed {args[r[0]]}"
                    return
            if sp["pair"]:
                a, b = ctx.get(d.pa.run), ctx.get(d.pb.run)
                if a != b:
                    out[0] = f"simultaneous(pa, pb): pa.run={a} pb.run={b}; val={val}"
                    return
                if a != run["ta"] or b != run["tb"]:
                    out[0] = f"pair: method runs {a},{b} but callers {run['ta']},{run['tb']}"
                    return
                ea = val["ta"] and val["pa"] and all(val[f"x:PA:{x}"] for x in sp["pair_calls"][0])
                eb = val["tb"] and val["pb"] and all(val[f"x:PB:{x}"] for x in sp["pair_calls"][1])
                if a and not (ea and eb):
                    out[0] = f"pair runs although a side is not enabled; val={val}"
                    return
                if bool(ea) != bool(eb):
                    st_["onesided"] += 1

    with DependencyContext(dm):
        sim.add_testbench(tb)
        sim.run()
    res.stats["valuations"] = st_["vals"]
    res.stats["transfers"] = st_["xfer"]
    res.stats["one_sided_valuations"] = st_["onesided"]
    if out[0] is not None:
        return res.fail(out[0])
    res.nontrivial = st_["onesided"] > 0 and st_["xfer"] > 0
    return res
