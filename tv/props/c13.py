"""C13 - simultaneous methods run together and exchange data."""

from amaranth import *
from amaranth.sim import Simulator
from hypothesis import strategies as st

from tv.core import Result, setup_paths

setup_paths()

from transactron import Method, TModule, Transaction  # noqa: E402
from transactron.core import TransactronContextElaboratable  # noqa: E402
from transactron.lib import Connect  # noqa: E402
from transactron.utils.dependencies import DependencyContext, DependencyManager  # noqa: E402

ID = "C13"
ENGINE = "A"
RULE = (
    "case = a topology of Connect instances (forward / reverse layouts of 0-3 bits): 'plain' = 1-2 independent Connects "
    "with 1-2 writer and 1-3 reader transactions each (one Connect in five has an unconnected side: no caller at all); 'chain' = 2-4 Connects in series linked by middle transactions "
    "that read one Connect and write the next (transitivity, up to 5 transactions in one simultaneity group); "
    "'broadcast' = one transaction writing 2-4 Connects, each read by 1-2 readers.  Every caller additionally calls 0-2 "
    "methods with ready inputs, drawn from a pool private to its role (a writer and a reader sharing an exclusive callee "
    "is rightly rejected as unsatisfiable simultaneity).  Optionally a pair of user methods related by simultaneous(), and "
    "optionally a transaction nested in a method body and declared simultaneous with that method, the method being "
    "reached through a call chain of 1-3 levels guarded by If / enable_call (the method and the nested transaction must "
    "run in exactly the same valuations).  "
    "All valuations of the ready inputs are enumerated up to 2^10, else 1024 strided ones (data values are a fixed "
    "function of the valuation index).  Oracle = read.run == write.run for every Connect, a.run == b.run for the pair, at "
    "most one caller per side, a transfer only with an enabled caller on both sides; when they run, the reader's result "
    "is the active writer's argument and the writer's result the active reader's argument, end to end across a chain; "
    "all Connects of a chain / broadcast transfer in exactly the same cycles; non-trivial = a valuation where one side has "
    "an enabled caller and the other has none, and a transfer in another valuation"
)
ASSUMPTIONS = ["amaranth.sim.Simulator is the trusted execution model"]
TECHNIQUE = "generated Connect/simultaneous() topologies + exhaustive ready valuations against run-equality and data-exchange predicates"


def budget(tier):
    return dict(examples=25, seconds=45) if tier == "quick" else dict(examples=300, seconds=420)


def _extras(draw, n=2):
    return sorted(draw(st.sets(st.integers(0, 1), max_size=n)))


@st.composite
def strategy(draw, tier="quick"):
    mode = draw(st.sampled_from(["plain", "plain", "chain", "broadcast"]))
    nconn = draw(st.integers(1, 2)) if mode == "plain" else draw(st.integers(2, 4))
    fw, rw = draw(st.integers(0, 3)), draw(st.integers(0, 3))
    conns = []
    for k in range(nconn):
        nw = draw(st.integers(1, 2))
        nr = draw(st.integers(1, 3 if nconn == 1 else 2))
        c = dict(
            fw=fw if mode != "plain" else draw(st.integers(0, 3)),
            rw=rw if mode != "plain" else draw(st.integers(0, 3)),
            writers=[_extras(draw) for _ in range(nw)],
            readers=[_extras(draw) for _ in range(nr)],
            wrdy=[draw(st.booleans()) for _ in range(nw)],
            rrdy=[draw(st.booleans()) for _ in range(nr)],
        )
        if mode == "chain":
            if k > 0:
                c["writers"], c["wrdy"] = [], []
            if k < nconn - 1:
                c["readers"], c["rrdy"] = [], []
        if mode == "broadcast":
            c["writers"], c["wrdy"] = [], []
        if mode == "plain":
            # an unconnected port: one side of the Connect has no caller at all, so the other side can never run
            orphan = draw(st.integers(0, 9))
            if orphan == 0:
                c["writers"], c["wrdy"] = [], []
            elif orphan == 1:
                c["readers"], c["rrdy"] = [], []
        conns.append(c)
    pair = draw(st.integers(0, 2)) == 0
    pair_orphan = draw(st.sampled_from([0, 0, 0, 0, 1, 2])) if pair else 0
    # a transaction nested in a method body and declared simultaneous with that method; the method is reached through
    # a call chain whose calls may be guarded by If (1) or enable_call (2)
    nested_sim = [draw(st.integers(0, 2)) for _ in range(draw(st.integers(1, 3)))] if draw(st.integers(0, 2)) == 0 else None
    return dict(
        nested_sim=nested_sim,
        # a second transaction nested in (and simultaneous with) the first nested one: three bodies that must run together
        nested_sim2=nested_sim is not None and draw(st.booleans()),
        mode=mode,
        conns=conns,
        mids=[_extras(draw, 1) for _ in range(nconn - 1)] if mode == "chain" else [],
        bw=_extras(draw, 1) if mode == "broadcast" else [],
        pair=pair,
        pair_orphan=pair_orphan,
        pair_calls=[_extras(draw, 1) for _ in range(2)] if pair else [],
    )


def callers(sp, k, side):
    """[(transaction name, extra callees, pool role, has ready input)] of one side of Connect k"""
    mode = sp["mode"]
    if mode == "chain" and side == "w" and k > 0:
        return [(f"mid{k - 1}", sp["mids"][k - 1], f"MID{k - 1}", True)]
    if mode == "chain" and side == "r" and k < len(sp["conns"]) - 1:
        return [(f"mid{k}", sp["mids"][k], f"MID{k}", True)]
    if mode == "broadcast" and side == "w":
        return [("bw", sp["bw"], "BW", True)]
    c = sp["conns"][k]
    lst = c["writers"] if side == "w" else c["readers"]
    flags = c["wrdy"] if side == "w" else c["rrdy"]
    return [(f"{side}{k}_{i}", extra, f"{side.upper()}{k}", flags[i]) for i, extra in enumerate(lst)]


class D(Elaboratable):
    def __init__(self, spec):
        self.spec = spec
        self.pools = {}  # role -> {index: (Method, ready signal)}
        self.trs = {}
        self.rdy = {}
        self.arg = {}
        self.res = {}

    def used(self):
        sp = self.spec
        u = set()
        for k in range(len(sp["conns"])):
            for side in "wr":
                for _, extra, role, _ in callers(sp, k, side):
                    u |= {(role, x) for x in extra}
        if sp["pair"]:
            po = sp.get("pair_orphan", 0)
            u |= ({("PA", x) for x in sp["pair_calls"][0]} if po != 1 else set()) | (
                {("PB", x) for x in sp["pair_calls"][1]} if po != 2 else set()
            )
        return sorted(u)

    def elaborate(self, platform):
        m = TModule()
        sp = self.spec
        n = len(sp["conns"])
        self.conn = []
        for k, c in enumerate(sp["conns"]):
            con = Connect([("d", c["fw"])], [("r", c["rw"])])
            m.submodules[f"c{k}"] = con
            self.conn.append(con)
        # the extra methods are defined at module level, before any caller
        for role, x in self.used():
            meth = Method(name=f"x_{role}_{x}")
            r = Signal(name=f"xr_{role}_{x}")
            with meth.body(m, ready=r):
                pass
            self.pools.setdefault(role, {})[x] = (meth, r)

        def extras(role, lst):
            for x in lst:
                self.pools[role][x][0](m)

        def endpoint(name, k, side, extra, role, has_rdy):
            c = sp["conns"][k]
            con = self.conn[k]
            t = Transaction(name=name)
            self.trs[name] = t
            self.rdy[name] = Signal(name=f"rdy_{name}")
            aw, rw_ = (c["fw"], c["rw"]) if side == "w" else (c["rw"], c["fw"])
            self.arg[name] = Signal(aw, name=f"arg_{name}")
            self.res[name] = Signal(rw_, name=f"res_{name}")
            with t.body(m, ready=self.rdy[name] if has_rdy else C(1)):
                if side == "w":
                    m.d.top_comb += self.res[name].eq(con.write(m, d=self.arg[name]).r)
                else:
                    m.d.top_comb += self.res[name].eq(con.read(m, r=self.arg[name]).d)
                extras(role, extra)

        for k in range(n):
            for side in "wr":
                for name, extra, role, has_rdy in callers(sp, k, side):
                    if name.startswith(("mid", "bw")):
                        continue
                    endpoint(name, k, side, extra, role, has_rdy)
        if sp["mode"] == "chain":
            for i in range(n - 1):
                name = f"mid{i}"
                t = Transaction(name=name)
                self.trs[name] = t
                self.rdy[name] = Signal(name=f"rdy_{name}")
                with t.body(m, ready=self.rdy[name]):
                    back = Signal(sp["conns"][0]["rw"], name=f"mid_back{i}")
                    fwd = self.conn[i].read(m, r=back).d
                    m.d.top_comb += back.eq(self.conn[i + 1].write(m, d=fwd).r)
                    extras(f"MID{i}", sp["mids"][i])
        if sp["mode"] == "broadcast":
            t = Transaction(name="bw")
            self.trs["bw"] = t
            self.rdy["bw"] = Signal(name="rdy_bw")
            with t.body(m, ready=self.rdy["bw"]):
                for k in range(n):
                    self.arg[f"bw@{k}"] = Signal(sp["conns"][k]["fw"], name=f"arg_bw_{k}")
                    self.res[f"bw@{k}"] = Signal(sp["conns"][k]["rw"], name=f"res_bw_{k}")
                    m.d.top_comb += self.res[f"bw@{k}"].eq(self.conn[k].write(m, d=self.arg[f"bw@{k}"]).r)
                extras("BW", sp["bw"])
        if sp.get("nested_sim") is not None:
            chain = sp["nested_sim"]
            self.ns_probe = Method(name="ns_probe")
            with self.ns_probe.body(m):
                pass
            self.ns_inner = Method(name="ns_inner")
            two = bool(sp.get("nested_sim2"))
            for nm_ in ("ns_inner", "ns_nested", "ns_top") + (("ns_nested2",) if two else ()):
                self.rdy[nm_] = Signal(name=f"rdy_{nm_}")
            if two:
                self.ns_probe2 = Method(name="ns_probe2")
                with self.ns_probe2.body(m):
                    pass
            self.ns_guards = [Signal(name=f"ns_g{i}") for i, g in enumerate(chain) if g]
            for i, sg in enumerate(self.ns_guards):
                self.rdy[f"ns_g{i}"] = sg
            with self.ns_inner.body(m, ready=self.rdy["ns_inner"]):
                nst = Transaction(name="ns_nested")
                with nst.body(m, ready=self.rdy["ns_nested"]):
                    self.ns_probe(m)
                    if two:
                        nst2 = Transaction(name="ns_nested2")
                        with nst2.body(m, ready=self.rdy["ns_nested2"]):
                            self.ns_probe2(m)
                        nst.simultaneous(nst2)
                self.ns_inner.simultaneous(nst)
            wrappers = [Method(name=f"ns_w{i}") for i in range(len(chain) - 1)]
            targets = wrappers + [self.ns_inner]
            gs = iter(self.ns_guards)

            def ns_call(level):
                g = chain[level]
                if g == 0:
                    targets[level](m)
                elif g == 1:
                    with m.If(next(gs)):
                        targets[level](m)
                else:
                    targets[level](m, enable_call=next(gs))

            t = Transaction(name="ns_top")
            self.trs["ns_top"] = t
            with t.body(m, ready=self.rdy["ns_top"]):
                ns_call(0)
            for i, wm in enumerate(wrappers):
                with wm.body(m):
                    ns_call(i + 1)
        if sp["pair"]:
            self.pa = Method(name="pa")
            self.pb = Method(name="pb")
            self.pa.simultaneous(self.pb)
            self.rdy["pa"] = Signal(name="rdy_pa")
            self.rdy["pb"] = Signal(name="rdy_pb")
            with self.pa.body(m, ready=self.rdy["pa"]):
                pass
            with self.pb.body(m, ready=self.rdy["pb"]):
                pass
            for nm_, meth, role, calls in (("ta", self.pa, "PA", sp["pair_calls"][0]), ("tb", self.pb, "PB", sp["pair_calls"][1])):
                if sp.get("pair_orphan", 0) == (1 if nm_ == "ta" else 2):
                    continue  # this method of the pair has no caller
                t = Transaction(name=nm_)
                self.trs[nm_] = t
                self.rdy[nm_] = Signal(name=f"rdy_{nm_}")
                with t.body(m, ready=self.rdy[nm_]):
                    meth(m)
                    extras(role, calls)
        return m


def run_case(spec) -> Result:
    sp = spec
    n = len(sp["conns"])
    res = Result(labels=[sp["mode"], f"connects{n}"] + (["simultaneous_pair"] if sp["pair"] else []))
    if sp.get("pair_orphan") or any(not callers(sp, k, sd) for k in range(n) for sd in "wr"):
        res.labels.append("side_without_caller")
    if sp.get("nested_sim") is not None:
        if sp.get("nested_sim2"):
            res.labels.append("nested_simultaneous_two_levels")
        res.labels.append("nested_simultaneous" + ("+guarded_chain" if any(sp["nested_sim"]) and len(sp["nested_sim"]) > 1 else ""))
    d = D(spec)
    dm = DependencyManager()
    with DependencyContext(dm):
        sim = Simulator(TransactronContextElaboratable(d, dependency_manager=dm))
    ctrl = list(d.rdy.items()) + [(f"x:{role}:{i}", r) for role, lst in sorted(d.pools.items()) for i, (_, r) in sorted(lst.items())]
    nb = len(ctrl)
    if nb > 10:
        res.labels.append("sampled_valuations")
    group = 1 + (n if sp["mode"] == "broadcast" else (n + 1 if sp["mode"] == "chain" else 1))
    res.labels.append(f"group_size>={min(group, 4)}")
    out = [None]
    st_ = dict(vals=0, xfer=0, onesided=0)

    async def tb(ctx):
        total = 1 << nb
        stride = 1 if nb <= 10 else (total // 1024) | 1
        for v in range(0, total, stride):
            val = {}
            for i, (nm_, sg) in enumerate(ctrl):
                val[nm_] = (v >> i) & 1
                ctx.set(sg, val[nm_])
            args = {}
            for j, (nm_, sg) in enumerate(sorted(d.arg.items())):
                args[nm_] = (v * 7 + j * 3 + 1) % (1 << len(sg)) if len(sg) else 0
                ctx.set(sg, args[nm_])
            st_["vals"] += 1
            run = {nm_: ctx.get(t.run) for nm_, t in d.trs.items()}

            def enabled(name, extra, role, has_rdy):
                return bool(val[name] if has_rdy else 1) and all(val[f"x:{role}:{x}"] for x in extra)

            mruns = []
            for k, con in enumerate(d.conn):
                mw, mr = ctx.get(con.write.run), ctx.get(con.read.run)
                mruns.append(mw)
                if mw != mr:
                    out[0] = f"Connect {k}: write.run={mw} read.run={mr}; val={val}"
                    return
                ws, rs = callers(sp, k, "w"), callers(sp, k, "r")
                wrun = [c for c in ws if run[c[0]]]
                rrun = [c for c in rs if run[c[0]]]
                if len(wrun) > 1 or len(rrun) > 1:
                    out[0] = f"Connect {k}: more than one writer/reader runs; val={val}"
                    return
                if mw != (len(wrun) == 1) or mr != (len(rrun) == 1):
                    out[0] = f"Connect {k}: method run {mw}/{mr} but running callers {[c[0] for c in wrun]}/{[c[0] for c in rrun]}; val={val}"
                    return
                wen = [c for c in ws if enabled(*c)]
                ren = [c for c in rs if enabled(*c)]
                if mw and not (wen and ren):
                    out[0] = f"Connect {k} transfers although a side has no enabled caller; val={val}"
                    return
                if bool(wen) != bool(ren):
                    st_["onesided"] += 1
                if mw:
                    st_["xfer"] += 1
                    wn, rn = wrun[0][0], rrun[0][0]
                    if sp["mode"] == "broadcast":
                        wn = f"bw@{k}"
                    if not wn.startswith("mid") and not rn.startswith("mid"):
                        if ctx.get(d.res[rn]) != args[wn]:
                            out[0] = f"Connect {k}: reader {rn} got {ctx.get(d.res[rn])}, writer {wn} passed {args[wn]}; val={val}"
                            return
                        if ctx.get(d.res[wn]) != args[rn]:
                            out[0] = f"Connect {k}: writer {wn} got {ctx.get(d.res[wn])}, reader {rn} passed {args[rn]}; val={val}"
                            return
            if sp["mode"] in ("chain", "broadcast") and len(set(mruns)) > 1:
                out[0] = f"{sp['mode']}: the Connects do not transfer in the same cycle: {mruns}; val={val}"
                return
            if sp["mode"] == "chain" and mruns[0]:
                w = [nm_ for nm_ in run if nm_.startswith("w0_") and run[nm_]]
                r = [nm_ for nm_ in run if nm_.startswith(f"r{n - 1}_") and run[nm_]]
                if len(w) != 1 or len(r) != 1 or not all(run[f"mid{i}"] for i in range(n - 1)):
                    out[0] = f"chain transfers but running: {[k_ for k_, v_ in run.items() if v_]}; val={val}"
                    return
                if ctx.get(d.res[r[0]]) != args[w[0]]:
                    out[0] = f"chain: reader {r[0]} got {ctx.get(d.res[r[0]])}, writer {w[0]} passed {args[w[0]]}"
                    return
                if ctx.get(d.res[w[0]]) != args[r[0]]:
                    out[0] = f"chain: writer {w[0]} got {ctx.get(d.res[w[0]])}, reader {r[0]} passed {args[r[0]]}"
                    return
            if sp.get("nested_sim") is not None:
                ir, nr = ctx.get(d.ns_inner.run), ctx.get(d.ns_probe.run)
                if ir != nr:
                    out[0] = f"method and its simultaneous nested transaction: method.run={ir}, nested transaction runs={nr}; val={val}"
                    return
                two = bool(sp.get("nested_sim2"))
                if two and ctx.get(d.ns_probe2.run) != ir:
                    out[0] = (
                        f"method, nested transaction and the transaction nested in that one (all simultaneous): method.run={ir}, "
                        f"innermost transaction runs={ctx.get(d.ns_probe2.run)}; val={val}"
                    )
                    return
                gok = all(val[f"ns_g{i}"] for i in range(len(d.ns_guards)))
                en_all = bool(val["ns_top"] and val["ns_inner"] and val["ns_nested"] and gok and (not two or val["ns_nested2"]))
                if ir and not en_all:
                    out[0] = f"nested simultaneous pair runs although a side is not enabled / not called; val={val}"
                    return
                if val["ns_top"] and gok and (bool(val["ns_inner"]) != bool(val["ns_nested"])):
                    st_["onesided"] += 1
                if ir:
                    st_["xfer"] += 1
            if sp["pair"]:
                a, b = ctx.get(d.pa.run), ctx.get(d.pb.run)
                if a != b:
                    out[0] = f"simultaneous(pa, pb): pa.run={a} pb.run={b}; val={val}"
                    return
                po = sp.get("pair_orphan", 0)
                if a != run.get("ta", 0) or b != run.get("tb", 0):
                    out[0] = f"pair: method runs {a},{b} but callers {run.get('ta', 0)},{run.get('tb', 0)}"
                    return
                ea = po != 1 and val["ta"] and val["pa"] and all(val[f"x:PA:{x}"] for x in sp["pair_calls"][0])
                eb = po != 2 and val["tb"] and val["pb"] and all(val[f"x:PB:{x}"] for x in sp["pair_calls"][1])
                if a and not (ea and eb):
                    out[0] = f"pair runs although a side is not enabled; val={val}"
                    return
                if bool(ea) != bool(eb):
                    st_["onesided"] += 1

    with DependencyContext(dm):
        sim.add_testbench(tb)
        sim.run()
    res.stats["valuations"] = st_["vals"]
    res.stats["transfers"] = st_["xfer"]
    res.stats["one_sided_valuations"] = st_["onesided"]
    if out[0] is not None:
        return res.fail(out[0])
    res.nontrivial = st_["onesided"] > 0 and st_["xfer"] > 0
    return res
