"""C14 - FIFO and BasicFifo behave as bounded queues."""

from hypothesis import strategies as st

from tv.core import Result
from tv.cyc import Harness, history, step

ID = "C14"
RULE = (
    "case = (kind FIFO|BasicFifo, depth 1..9, layout of 1-2 fields of 1..8 bits, history of per-cycle request vectors "
    "read/peek/write/clear with write data); model = bounded python list stepped with the observed accepted set; "
    "non-trivial = the history wrapped around the storage AND had (read+write accepted in one cycle at full or at "
    "one element) or (clear and write accepted in one cycle)"
)
ASSUMPTIONS = [
    "amaranth.sim.Simulator is the trusted execution model",
    "FIFO is exercised with its default fifo_type (SyncFIFO)",
    "readiness is judged behaviourally: a requested call that is not accepted counts as 'not ready'",
]


def budget(tier):
    return dict(examples=40, seconds=40) if tier == "quick" else dict(examples=500, seconds=420)


@st.composite
def strategy(draw, tier="quick"):
    kind = draw(st.sampled_from(["BasicFifo", "BasicFifo", "FIFO"]))
    depth = draw(st.integers(1, 9))
    widths = draw(st.lists(st.integers(1, 8), min_size=1, max_size=2))
    methods = {"read": [], "peek": [], "write": [1 << w for w in widths]}
    if kind == "BasicFifo":
        methods["clear"] = []
    hi = 60 if tier == "quick" else 200
    hist = draw(history(methods, 5, hi))
    return {"kind": kind, "depth": depth, "widths": widths, "history": hist}


def run_case(case) -> Result:
    from transactron.lib import FIFO, BasicFifo

    kind, depth, widths = case["kind"], case["depth"], case["widths"]
    layout = [(f"f{i}", w) for i, w in enumerate(widths)]
    res = Result(labels=[kind, f"depth{depth}"])
    h = Harness(lambda: (BasicFifo if kind == "BasicFifo" else FIFO)(layout, depth))
    names = ["read", "write"] + (["peek", "clear"] if kind == "BasicFifo" else [])
    flags = dict(wrap=False, rw_edge=False, clear_write=False)

    async def tb(ctx):
        ios = h.ios(names)
        q = []
        written = 0
        for cyc, rec in enumerate(case["history"]):
            reqs = {}
            for n in names:
                a = rec.get(n)
                if a is None:
                    continue
                reqs[n] = {f"f{i}": v for i, v in enumerate(a)} if n == "write" else {}
            results, _ = await step(ctx, ios, reqs)
            res.stats["cycles"] = res.stats.get("cycles", 0) + 1
            nonempty, notfull = len(q) > 0, len(q) < depth
            head = q[0] if q else None
            # admissibility: accepted <=> requested and model-ready
            for n, ready in (("read", nonempty), ("peek", nonempty), ("write", notfull), ("clear", True)):
                if n not in names:
                    continue
                acc = results[n] is not None
                if acc and n not in reqs:
                    return res.fail(f"cycle {cyc}: {n} ran without being requested")
                if n in reqs and acc != ready:
                    return res.fail(
                        f"cycle {cyc}: {n} requested, model ready={ready} (level {len(q)}/{depth}) but accepted={acc}"
                    )
            for n in ("read", "peek"):
                if n in names and results[n] is not None and results[n] != head:
                    return res.fail(f"cycle {cyc}: {n} returned {results[n]} expected {head}")
            r_acc = results["read"] is not None
            w_acc = results["write"] is not None
            c_acc = kind == "BasicFifo" and results["clear"] is not None
            if r_acc and w_acc and (len(q) == 1 or len(q) == depth):
                flags["rw_edge"] = True
            if c_acc and w_acc:
                flags["clear_write"] = True
            if r_acc:
                q.pop(0)
            if w_acc:
                q.append(reqs["write"])
                written += 1
                if written > depth:
                    flags["wrap"] = True
            if c_acc:
                q.clear()

    h.run(tb)
    for k, v in flags.items():
        if v:
            res.labels.append(k)
    res.nontrivial = flags["wrap"] and (flags["rw_edge"] or flags["clear_write"])
    return res
