"""C14 - FIFO and BasicFifo behave as bounded queues."""

from hypothesis import strategies as st

from tv.core import Result
from tv.cyc import Harness, step
from tv.queues import capped_history

ID = "C14"
RULE = (
    "case = (kind FIFO|BasicFifo, depth 1..9, layout of 1-2 fields of 1..8 bits, history of per-cycle request vectors "
    "read/peek/write/clear with write data); model = bounded python list stepped with the observed accepted set; "
    "non-trivial = the history wrapped around the storage AND had (read+write accepted in one cycle at full or at "
    "one element) or (clear and write accepted in one cycle)"
)
ASSUMPTIONS = [
    "amaranth.sim.Simulator is the trusted execution model",
    "FIFO is exercised with its default fifo_type (SyncFIFO) and, in the safety direction only, with SyncFIFOBuffered "
    "(whose output register delays readiness, so 'ready iff non-empty' is not claimed for it)",
    "readiness is judged behaviourally: a requested call that is not accepted counts as 'not ready'",
]


def budget(tier):
    return dict(examples=40, seconds=40) if tier == "quick" else dict(examples=500, seconds=420)


@st.composite
def strategy(draw, tier="quick"):
    kind = draw(st.sampled_from(["BasicFifo", "BasicFifo", "FIFO", "FIFO", "FIFO:buffered"]))
    depth = draw(st.integers(1, 9))
    widths = draw(st.lists(st.integers(1, 8), min_size=1, max_size=2))
    methods = {"read": [], "peek": [], "write": [1 << w for w in widths]}
    if kind == "BasicFifo":
        methods["clear"] = []
    # in one case of four a second, independent caller of read or write exists ("read_b" / "write_b"): the methods are
    # exclusive, so of two simultaneous callers exactly one is served and every element is written / removed once
    second = draw(st.sampled_from([None, None, None, "read", "write"]))
    if second:
        methods[second + "_b"] = list(methods[second])
    hi = 60 if tier == "quick" else 200
    # clear is kept rare (weight <= 1 of 8 per segment) and fill / steady-state / drain profiles are frequent, so that the
    # pointers really travel around the ring several times between two clears
    profiles = [
        {"write": 7, "read": 1, "peek": 6, "read_b": 1, "write_b": 5},
        {"write": 8, "read": 8, "peek": 8, "read_b": 8, "write_b": 8},
        {"write": 1, "read": 6, "peek": 6, "read_b": 5, "write_b": 1},
        {"write": 6, "read": 5, "peek": 4, "clear": 1, "read_b": 4, "write_b": 4},
    ]
    hist = draw(capped_history(methods, 5, hi, caps={"clear": 1}, profiles=profiles))
    return {"kind": kind, "depth": depth, "widths": widths, "second": second, "history": hist}


def run_case(case) -> Result:
    from transactron.lib import FIFO, BasicFifo

    kind, depth, widths = case["kind"], case["depth"], case["widths"]
    layout = [(f"f{i}", w) for i, w in enumerate(widths)]
    res = Result(labels=[kind, f"depth{depth}"])
    import amaranth.lib.fifo as afifo

    # "FIFO:buffered" = FIFO(fifo_type=SyncFIFOBuffered): its output register delays readiness by a cycle, so for this
    # configuration only the safety direction is judged (an accepted read returns the oldest element of a non-empty
    # queue, an accepted write had room), plus: an element written >= 3 cycles ago must be readable
    buffered = kind == "FIFO:buffered"
    if kind == "BasicFifo":
        mk = lambda: BasicFifo(layout, depth)  # noqa: E731
    elif buffered:
        mk = lambda: FIFO(layout, depth, fifo_type=afifo.SyncFIFOBuffered)  # noqa: E731
    else:
        mk = lambda: FIFO(layout, depth)  # noqa: E731
    second = case.get("second")
    h = Harness(mk, second_callers=(second,) if second else ())
    if second:
        res.labels.append("two_callers_of_" + second)
    names = ["read", "write"] + (["peek", "clear"] if kind == "BasicFifo" else []) + ([second + "_b"] if second else [])
    flags = dict(wrap=False, rw_edge=False, clear_write=False)

    async def tb(ctx):
        ios = h.ios(names)
        q = []
        qcyc = []  # cycle in which each queued element was written
        written = 0
        for cyc, rec in enumerate(case["history"]):
            reqs = {}
            for n in names:
                a = rec.get(n)
                if a is None:
                    continue
                reqs[n] = {f"f{i}": v for i, v in enumerate(a)} if n.startswith("write") else {}
            results, _ = await step(ctx, ios, reqs)
            res.stats["cycles"] = res.stats.get("cycles", 0) + 1
            if second:
                # fold the two callers of the contended method into one request: at most one may be served, and when
                # both request, the outcome must be that of a single request
                a, b = second, second + "_b"
                req2 = [c for c in (a, b) if c in reqs]
                acc2 = [c for c in req2 if results[c] is not None]
                if results[a] is not None and a not in reqs or results[b] is not None and b not in reqs:
                    return res.fail(f"cycle {cyc}: {second} ran for a caller that did not request it")
                if len(acc2) > 1:
                    return res.fail(f"cycle {cyc}: both callers of {second} were served in one cycle (exclusive method)")
                if req2:
                    win = acc2[0] if acc2 else req2[0]
                    reqs[a] = reqs[win]
                    results[a] = results[win]
                reqs.pop(b, None)
                results.pop(b, None)
            nonempty, notfull = len(q) > 0, len(q) < depth
            head = q[0] if q else None
            # admissibility: accepted <=> requested and model-ready
            for n, ready in (("read", nonempty), ("peek", nonempty), ("write", notfull), ("clear", True)):
                if n not in names or n.endswith("_b"):
                    continue
                acc = results[n] is not None
                if acc and n not in reqs:
                    return res.fail(f"cycle {cyc}: {n} ran without being requested")
                if buffered:
                    if acc and not ready:
                        return res.fail(f"cycle {cyc}: {n} accepted although the queue is {'empty' if n == 'read' else 'full'} (level {len(q)}/{depth}, buffered)")
                    if n == "read" and n in reqs and not acc and q and cyc - qcyc[0] >= 3:
                        return res.fail(f"cycle {cyc}: read refused although the oldest element was written in cycle {qcyc[0]} (buffered)")
                    continue
                if n in reqs and acc != ready:
                    return res.fail(
                        f"cycle {cyc}: {n} requested, model ready={ready} (level {len(q)}/{depth}) but accepted={acc}"
                    )
            for n in ("read", "peek"):
                if n in names and results[n] is not None and results[n] != head:
                    return res.fail(f"cycle {cyc}: {n} returned {results[n]} expected {head}")
            r_acc = results["read"] is not None
            w_acc = results["write"] is not None
            c_acc = kind == "BasicFifo" and results["clear"] is not None
            if r_acc and w_acc and (len(q) == 1 or len(q) == depth):
                flags["rw_edge"] = True
            if c_acc and w_acc:
                flags["clear_write"] = True
            if r_acc:
                q.pop(0)
                qcyc.pop(0)
            if w_acc:
                q.append(reqs["write"])
                qcyc.append(cyc)
                written += 1
                if written > depth:
                    flags["wrap"] = True
            if c_acc:
                q.clear()
                qcyc.clear()
                written = 0  # the pointers restart, too

    h.run(tb)
    for k, v in flags.items():
        if v:
            res.labels.append(k)
    res.nontrivial = flags["wrap"] and (flags["rw_edge"] or flags["clear_write"])
    return res
