"""C04 - methods execute exactly when called by a running caller."""

from hypothesis import strategies as st

from tv.designs import gen_deep_nesting_spec, gen_spec
from tv.props import c12
from tv.props._core_a import run_design, tier_opts

ID = "C04"
ENGINE = "A"
RULE = (
    "case = generated design (multi-level call chains, nonexclusive methods, provide/Methods.provide aliases, nested "
    "transactions, enable_call, uncalled methods) under all / 256 drawn valuations; oracle = run(M) <=> at least one "
    "call site of M is active (owner observed running, conditions and enable_call from the valuation); alias.run == "
    "run of the aliased method; a nested transaction never runs without its enclosing body; non-trivial = the design "
    "has a call chain of depth >= 2, an alias or an enable_call"
)
ASSUMPTIONS = ["amaranth.sim.Simulator is the trusted execution model"]
TECHNIQUE = "grammar-based design generation + exhaustive input valuations against a semantic predicate"


def budget(tier):
    return dict(examples=70, seconds=45) if tier == "quick" else dict(examples=300, seconds=420)


def strategy(tier):
    general = gen_spec(**{**tier_opts(tier), **dict(allow_rels=True, allow_rdep=True, allow_nm=True)})
    # one case in five is a condition() block reached through a guarded call chain (C12's generator): its branches
    # are nested transactions, for which this property demands: a condition() branch (a nested transaction) never runs in a cycle where its enclosing body does not run
    cond = c12.strategy(tier).map(lambda sp: {"gen": "condition", "spec": sp})
    # one case in ten: three levels of nested bodies with callers (and conflicts) on every level
    deep = gen_deep_nesting_spec()
    return st.integers(0, 9).flatmap(lambda k: cond if k >= 8 else (deep if k == 7 else general))


def run_case(case):
    if case.get("gen") == "condition":
        res = c12.run_case(case["spec"])
        res.labels = ["condition_block"] + res.labels
        if res.violation is not None and not res.violation.startswith(('P1', 'branch')):
            res.violation = None  # the other clauses of C12 are not this property's business
        res.nontrivial = res.nontrivial and "guarded_call" in res.labels
        return res
    res, an, orc, exc = run_design(case, ["c04"])
    if orc is None:
        return res
    uncalled = [m for m in an.methods if not any(s["callee"] == m for s in an.sites)]
    if uncalled:
        res.labels.append("uncalled_method")
    res.nontrivial = any(l in res.labels for l in ("depth>=2", "alias", "enable_call"))
    return res
