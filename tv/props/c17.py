"""C17 - Forwarder and Pipe are lossless one-slot buffers."""

from hypothesis import strategies as st

from tv.core import Result
from tv.cyc import Harness, draw_second, second_fold, second_request, step
from tv.queues import capped_history, check_accept

ID = "C17"
ENGINE = "B"
TECHNIQUE = "cycle-accurate driver + one-slot reference model stepped with the observed accepted set"
RULE = (
    "case = (kind Forwarder|Pipe, layout of 1-2 fields of 1..8 bits, history of per-cycle request vectors "
    "read/peek/write/clear with write data; clear is kept rare); model = one optional slot; the ready coupling uses "
    "the OBSERVED acceptance of the partner method in the same cycle (Forwarder: read/peek ready <=> full or write "
    "accepted; Pipe: write ready <=> empty or read accepted); in addition the stream of read results is compared "
    "with the stream of accepted writes (exactly once, in order, minus values dropped by clear); non-trivial = the "
    "history had the kind's coupling cycle (Forwarder: write forwarded to read on an empty buffer; Pipe: write "
    "accepted on a full buffer because read ran) AND a value that was buffered and delivered in a later cycle AND "
    "a refused write on a full buffer (labels also count clear racing write / read, peek-only forwarding)"
)
RULE += (
    "  In one case of three a SECOND, independent caller (its own transaction) of one exclusive method (read / write) requests "
    "in some of the cycles in which the first caller does, with the same arguments: at most one of the two may be served "
    "and the outcome must be that of a single request."
)

ASSUMPTIONS = [
    "amaranth.sim.Simulator is the trusted execution model",
    "readiness is judged behaviourally: a requested call that is not accepted counts as 'not ready'",
    "each method has a single caller (SimpleTestCircuit)",
]

PROFILES = [
    {"write": 8, "read": 8, "peek": 8},
    {"write": 8, "read": 3, "peek": 5},
    {"write": 4, "read": 8, "peek": 4},
    {"write": 6, "read": 5, "peek": 4, "clear": 1},
    {"write": 8, "read": 8, "peek": 2, "clear": 2},
]


def budget(tier):
    return dict(examples=200, seconds=40) if tier == "quick" else dict(examples=1200, seconds=300)


@st.composite
def strategy(draw, tier="quick"):
    kind = draw(st.sampled_from(["Forwarder", "Pipe"]))
    widths = draw(st.lists(st.integers(1, 8), min_size=1, max_size=2))
    methods = {"read": [], "peek": [], "write": [1 << w for w in widths], "clear": []}
    hi = 60 if tier == "quick" else 200
    hist = draw(capped_history(methods, 5, hi, caps={"clear": 3}, profiles=PROFILES))
    second, mask = draw_second(draw, ["read", "write"])
    return {"kind": kind, "widths": widths, "history": hist, "second": second, "second_mask": mask}


def run_case(case) -> Result:
    from transactron.lib import Forwarder, Pipe

    kind, widths = case["kind"], case["widths"]
    fwd = kind == "Forwarder"
    layout = [(f"f{i}", w) for i, w in enumerate(widths)]
    res = Result(labels=[kind])
    second = case.get("second")
    h = Harness(lambda: (Forwarder if fwd else Pipe)(layout), second_callers=(second,) if second else ())
    if second:
        res.labels.append("two_callers_of_" + second)
    names = ["read", "peek", "write", "clear"]
    flags = dict(
        coupling=False,
        buffered=False,
        refused_write=False,
        peek_forward=False,
        clear_write=False,
        clear_read=False,
        clear_drop=False,
    )

    async def tb(ctx):
        ios = h.ios(names + ([second + "_b"] if second else []))
        slot = None  # (value, cycle written) or None
        pending = []  # independent stream oracle: accepted writes not yet delivered
        for cyc, rec in enumerate(case["history"]):
            reqs = {}
            for n in names:
                a = rec.get(n)
                if a is None:
                    continue
                reqs[n] = {f"f{i}": v for i, v in enumerate(a)} if n == "write" else {}
            second_request(case, reqs, cyc)
            results, _ = await step(ctx, ios, reqs)
            res.stats["cycles"] = res.stats.get("cycles", 0) + 1
            msg = second_fold(case, reqs, results)
            if msg:
                return res.fail(f"cycle {cyc}: {msg}")
            full = slot is not None
            r = results["read"] is not None
            p = results["peek"] is not None
            w = results["write"] is not None
            c = results["clear"] is not None
            info = f"({kind}, buffer {'full' if full else 'empty'}, accepted: " + ",".join(
                n for n in names if results[n] is not None
            ) + ")"
            # readiness, with the documented coupling evaluated on the observed accepted set
            if fwd:
                w_rdy = not full
                r_rdy = full or w
                val = slot[0] if full else (reqs["write"] if w else None)
            else:
                r_rdy = full
                w_rdy = (not full) or r
                val = slot[0] if full else None
            for n, ready, acc in (("write", w_rdy, w), ("read", r_rdy, r), ("peek", r_rdy, p), ("clear", True, c)):
                if check_accept(res, cyc, n, n in reqs, ready, acc, info):
                    return
            for n in ("read", "peek"):
                if results[n] is not None and results[n] != val:
                    return res.fail(f"cycle {cyc}: {n} returned {results[n]} expected {val} {info}")
            # stream oracle: exactly once, in order
            if w:
                pending.append(reqs["write"])
            if r:
                if not pending:
                    return res.fail(f"cycle {cyc}: read delivered {results['read']} but nothing is outstanding {info}")
                exp = pending.pop(0)
                if results["read"] != exp:
                    return res.fail(f"cycle {cyc}: read delivered {results['read']}, next in order is {exp} {info}")
            if c:
                if pending:
                    flags["clear_drop"] = True
                pending.clear()
            if len(pending) > 1:
                return res.fail(f"cycle {cyc}: two values outstanding in a one-slot buffer {info}")
            # labels
            if "write" in reqs and full and not w:
                flags["refused_write"] = True
            if fwd and not full and w and r:
                flags["coupling"] = True
            if fwd and not full and w and p and not r:
                flags["peek_forward"] = True
            if not fwd and full and w and r:
                flags["coupling"] = True
            if r and full and slot[1] < cyc:
                flags["buffered"] = True
            if c and w:
                flags["clear_write"] = True
            if c and r:
                flags["clear_read"] = True
            # next state
            if fwd:
                if full and r:
                    slot = None
                if w and not r:
                    slot = (reqs["write"], cyc)
            else:
                if r:
                    slot = None
                if w:
                    slot = (reqs["write"], cyc)
            if c:
                slot = None
            if (slot is None) != (not pending) or (slot is not None and slot[0] != pending[0]):
                raise AssertionError(f"cycle {cyc}: slot model and stream model disagree {info}")  # harness bug

    h.run(tb)
    for k, v in flags.items():
        if v:
            res.labels.append(k)
    res.nontrivial = flags["coupling"] and flags["buffered"] and flags["refused_write"]
    if res.nontrivial:
        res.labels.insert(1, "nt")
        if flags["clear_write"]:
            res.labels.append("nt_clear_write")
    return res
