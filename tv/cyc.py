"""Engine B: cycle-accurate method driver.

The harness owns the schedule: every cycle it presents a vector "which methods are requested, with which
arguments", reads back which requests were accepted and what they returned, and hands that to a reference model.
"""

from __future__ import annotations

from typing import Any, Callable, Optional

from .core import setup_paths

setup_paths()

from amaranth import *  # noqa: E402,F401,F403
from amaranth.lib import data as adata  # noqa: E402
from amaranth.sim import Simulator  # noqa: E402
from hypothesis import strategies as st  # noqa: E402

from transactron.core import TransactronContextElaboratable, TransactionManager  # noqa: E402
from transactron.testing import CallTrigger, SimpleTestCircuit  # noqa: E402
from transactron.utils.dependencies import DependencyContext, DependencyManager  # noqa: E402


class _Top(Elaboratable):
    """Adds a dummy `sync` register so that `add_clock` accepts purely combinational designs."""

    def __init__(self, inner):
        self.inner = inner

    def elaborate(self, platform):
        m = Module()
        dummy = Signal()
        m.d.sync += dummy.eq(1)
        m.submodules.inner = self.inner
        return m


class _WithSecondCallers(Elaboratable):
    def __init__(self, tc, dut, names, registry):
        from transactron.lib import AdapterTrans
        from transactron.testing import TestbenchIO

        self._tc = tc
        self._ios = registry
        for n in names:
            base = n.rstrip("0123456789")
            meth = getattr(dut, n) if hasattr(dut, n) else getattr(dut, base)[int(n[len(base) :])]
            registry[n + "_b"] = TestbenchIO(AdapterTrans.create(meth))

    def __getattr__(self, name):
        return getattr(self._tc, name)

    def elaborate(self, platform):
        m = Module()
        m.submodules.tc = self._tc
        for n, io in self._ios.items():
            m.submodules[n] = io
        return m


def to_py(v: Any) -> Any:
    """Convert a sampled amaranth value (int, data.Const of struct/array, enum) to plain python."""
    if isinstance(v, adata.Const):
        shape = v.shape()
        if isinstance(shape, adata.StructLayout) or isinstance(shape, adata.UnionLayout):
            return {k: to_py(v[k]) for k, _ in shape}
        if isinstance(shape, adata.ArrayLayout):
            return [to_py(v[i]) for i in range(shape.length)]
        return v.as_value().value
    if isinstance(v, bool):
        return int(v)
    if isinstance(v, int):
        return int(v)
    try:
        return int(v)
    except Exception:
        return v


class Harness:
    """Wraps a transactional component in SimpleTestCircuit + transaction manager + simulator."""

    def __init__(
        self,
        make_dut: Callable[[], Any],
        *,
        dm_setup: Optional[Callable[[DependencyManager], None]] = None,
        scheduler=None,
        wrap: Optional[Callable[[Any], Any]] = None,
        test_circuit: bool = True,
        second_callers: tuple = (),
    ):
        self.dm = DependencyManager()
        if dm_setup is not None:
            dm_setup(self.dm)
        with DependencyContext(self.dm):
            self.dut = make_dut()
            self.tc = SimpleTestCircuit(self.dut) if test_circuit else self.dut
            # second, independent callers (their own AdapterTrans transaction) of some provided methods: "read" or,
            # for an element of a Methods list, "alloc0"; they appear as io "<name>_b"
            self.extra_ios: dict[str, Any] = {}
            if second_callers:
                self.tc = _WithSecondCallers(self.tc, self.dut, second_callers, self.extra_ios)
            top = wrap(self.tc) if wrap is not None else self.tc
            tm = TransactionManager(scheduler) if scheduler is not None else TransactionManager()
            self.top = _Top(TransactronContextElaboratable(top, dependency_manager=self.dm, transaction_manager=tm))
            self.sim = Simulator(self.top)
            self.sim.add_clock(1e-6)

    def ios(self, names) -> list[tuple[str, Any]]:
        """Flatten TestbenchIOs: a Methods attribute `x` yields x0, x1, ..."""
        out = []
        for n in names:
            if n in self.extra_ios:
                out.append((n, self.extra_ios[n]))
                continue
            io = getattr(self.tc, n)
            if isinstance(io, list):
                out += [(f"{n}{i}", x) for i, x in enumerate(io)]
            else:
                out.append((n, io))
        return out

    def run(self, tb) -> None:
        with DependencyContext(self.dm):
            self.sim.add_testbench(tb)
            self.sim.run()


async def step(ctx, ios, reqs: dict, samples=()):
    """One clock cycle: request the methods in `reqs` (name -> args dict; missing/None = not requested), return
    (results, sampled) where results[name] is None if the method did not run, else its result as python data."""
    trig = CallTrigger(ctx)
    for name, io in ios:
        a = reqs.get(name)
        trig = trig.call(io, a) if a is not None else trig.sample(io)
    for s in samples:
        trig = trig.sample(s)
    res = await trig
    n = len(ios)
    results = {name: (None if r is None else to_py(r)) for (name, _), r in zip(ios, res[:n])}
    return results, [to_py(x) for x in res[n:]]


def fold_second(name: str, reqs: dict, results: dict):
    """Two independent callers `<name>` and `<name>_b` of one EXCLUSIVE method: at most one may be served per cycle, and
    when both request, the outcome must be that of a single request.  Folds the pair into `<name>` (the served one, else
    the first requester) and removes `<name>_b`; returns a message if exclusivity is violated."""
    a, b = name, name + "_b"
    for c in (a, b):
        if results.get(c) is not None and c not in reqs:
            return f"{name} ran for a caller that did not request it"
    req2 = [c for c in (a, b) if c in reqs]
    acc2 = [c for c in req2 if results[c] is not None]
    if len(acc2) > 1:
        return f"both callers of {name} were served in one cycle (exclusive method)"
    if req2:
        win = acc2[0] if acc2 else req2[0]
        reqs[a] = reqs[win]
        results[a] = results[win]
    reqs.pop(b, None)
    results.pop(b, None)
    return None


def second_request(case: dict, reqs: dict, cyc: int) -> None:
    """(before `step`) the second caller `<m>_b` of the exclusive method m = case["second"] requests, with the same
    arguments as the first caller, in those cycles chosen by the bits of case["second_mask"] in which the first caller
    requests.  Together with `fold_second` afterwards: exactly one of the two is served iff a single caller would be."""
    m = case.get("second")
    if m and m in reqs and (case.get("second_mask", 0) >> (cyc % 32)) & 1:
        reqs[m + "_b"] = dict(reqs[m])


def second_fold(case: dict, reqs: dict, results: dict):
    """(after `step`) counterpart of `second_request`; returns a violation message or None"""
    m = case.get("second")
    if not m:
        return None
    return fold_second(m, reqs, results)


def draw_second(draw, methods):
    """strategy helper: (second, second_mask) - in one case of three one of `methods` gets a second caller"""
    second = draw(st.sampled_from([None, None] + [draw(st.sampled_from(list(methods)))]))
    return second, draw(st.integers(0, (1 << 32) - 1)) if second else 0


# ---------------------------------------------------------------------------------------------- strategies


def weights(n: int):
    """Per-segment request weights (0..8, out of 8) for n methods."""
    return st.lists(st.integers(0, 8), min_size=n, max_size=n)


@st.composite
def history(draw, methods: dict[str, list[int]], min_cycles: int, max_cycles: int, max_segments: int = 4):
    """History = list of cycle records {method: [raw ints] | None}.  `methods` maps a method name to the list of
    exclusive upper bounds of the raw integers drawn for a request (selectors/arguments, resolved by the model).
    Cycles are grouped into segments with their own request probabilities so that fill / drain / contention phases
    all occur."""
    names = list(methods)
    nseg = draw(st.integers(1, max_segments))
    out = []
    total = draw(st.integers(min_cycles, max_cycles))
    per = max(1, total // nseg)
    for s in range(nseg):
        w = draw(weights(len(names)))
        ncyc = per if s < nseg - 1 else max(1, total - per * (nseg - 1))
        for _ in range(ncyc):
            rec = {}
            for nm, wt in zip(names, w):
                if wt and draw(st.integers(0, 7)) < wt:
                    rec[nm] = [draw(st.integers(0, b - 1)) for b in methods[nm]]
                else:
                    rec[nm] = None
            out.append(rec)
    return out
