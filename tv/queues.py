"""Shared helpers for the queue-like components (C15 WideFifo, C16 Stack, C17 Forwarder/Pipe, C20 Semaphore)."""

from __future__ import annotations

from hypothesis import strategies as st


@st.composite
def capped_history(
    draw,
    methods: dict[str, list[int]],
    min_cycles: int,
    max_cycles: int,
    caps: dict[str, int] | None = None,
    max_segments: int = 4,
    profiles: list[dict[str, int]] | None = None,
):
    """Like tv.cyc.history (list of cycle records {method: [raw ints] | None}, grouped into segments with their own
    request weights out of 8), but the per-segment weight of method `m` is drawn from 0..caps[m] (default 8).  Used to
    keep destructive methods (clear) rare enough that fill / wrap-around phases survive, while every segment may
    still request them.  `profiles` is an optional list of fixed weight vectors (name -> weight, missing = 0); each
    segment either draws free weights or picks one of the profiles, so that fill / drain / contention phases are
    frequent instead of being left to chance."""
    caps = caps or {}
    names = list(methods)
    nseg = draw(st.integers(1, max_segments))
    total = draw(st.integers(min_cycles, max_cycles))
    per = max(1, total // nseg)
    out = []
    for s in range(nseg):
        mode = draw(st.integers(0, len(profiles))) if profiles else 0
        if mode == 0:
            w = [draw(st.integers(0, caps.get(nm, 8))) for nm in names]
        else:
            w = [profiles[mode - 1].get(nm, 0) for nm in names]
        ncyc = per if s < nseg - 1 else max(1, total - per * (nseg - 1))
        for _ in range(ncyc):
            rec = {}
            for nm, wt in zip(names, w):
                if wt and draw(st.integers(0, 7)) < wt:
                    rec[nm] = [draw(st.integers(0, b - 1)) for b in methods[nm]]
                else:
                    rec[nm] = None
            out.append(rec)
    return out


def check_accept(res, cyc, name, requested, ready, accepted, ctx=""):
    """Behavioural readiness: accepted <=> requested and model-ready.  Returns True when a violation was recorded."""
    if accepted and not requested:
        res.fail(f"cycle {cyc}: {name} ran without being requested")
        return True
    if requested and accepted != ready:
        res.fail(f"cycle {cyc}: {name} requested, model ready={ready} but accepted={accepted} {ctx}")
        return True
    return False
