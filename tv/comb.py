"""Engine C: evaluate small (mostly combinational) Amaranth designs for many input valuations in ONE simulation.

A *design builder* is a zero-argument function returning ``(top, ins, outs)``:

    top   an amaranth ``Module`` or any ``Elaboratable`` (component under test, or a module computing helper calls)
    ins   list of ``(name, signal)``  - signals (or ``View``s of signals) that nothing in ``top`` drives
    outs  list of ``(name, value)``   - any value-castable expressions over ``ins`` / signals of ``top``

``evaluate(build, valuations)`` sets every input of a valuation with ``ctx.set``, lets the simulator settle and reads
every output with ``ctx.get``.  A valuation is a sequence of RAW bit patterns (non-negative ints, one per input);
outputs come back as python ints (signed output expressions as negative ints, structured outputs as their raw bit
pattern).  ``evaluate_seq`` does the same but clocks the design once after every sample (and can
pulse a synchronous reset), for the few sequential helpers (round-robin arbiters).

Nothing here knows the library under test; oracles live in the property modules.
"""

from __future__ import annotations

import itertools
from typing import Any, Callable, Iterable, Sequence

from .core import setup_paths

setup_paths()

from amaranth import *  # noqa: E402,F401,F403
from amaranth.hdl import ValueCastable  # noqa: E402
from amaranth.sim import Simulator  # noqa: E402
from hypothesis import strategies as st  # noqa: E402

Builder = Callable[[], tuple[Any, Sequence[tuple[str, Any]], Sequence[tuple[str, Any]]]]

# a valuation space of at most this many points is enumerated completely by the property modules
FULL_SPACE = 1 << 14


class _Wrapped(Elaboratable):
    def __init__(self, top, out_pairs, clocked: bool, rst=None):
        self.top = top
        self.out_pairs = out_pairs
        self.clocked = clocked
        self.rst = rst

    def elaborate(self, platform):
        m = Module()
        inner = self.top
        if self.rst is not None:
            inner = ResetInserter(self.rst)(inner)
        m.submodules.dut = inner
        for sig, val in self.out_pairs:
            m.d.comb += sig.eq(val)
        if self.clocked:
            dummy = Signal(name="_tv_dummy")
            m.d.sync += dummy.eq(1)  # makes the `sync` domain exist for purely combinational tops
        return m


def _raw(x) -> Value:
    return Value.cast(x)


def _prepare(build: Builder, clocked: bool, with_reset: bool = False):
    top, ins, outs = build()
    in_sigs = []
    for name, s in ins:
        v = _raw(s)
        if not isinstance(v, Signal):
            raise TypeError(f"input {name!r} is not a Signal (or a View of one)")
        in_sigs.append(v)
    out_pairs = []
    for name, o in outs:
        v = _raw(o)
        out_pairs.append((Signal(v.shape(), name=f"_tv_out_{name}"), v))
    rst = Signal(name="_tv_rst") if with_reset else None
    sim = Simulator(_Wrapped(top, out_pairs, clocked, rst))
    if clocked:
        sim.add_clock(1e-6)
    return sim, in_sigs, [s for s, _ in out_pairs], rst


def _converters(in_sigs):
    """Valuations hold raw bit patterns; signed input signals get the two's-complement reading of the pattern."""

    def mk(sig):
        w = len(sig)
        if sig.shape().signed:
            return lambda raw: to_signed(raw, w)
        return lambda raw: raw & ((1 << w) - 1) if w else 0

    return [mk(s) for s in in_sigs]


def evaluate(
    build: Builder, valuations: Iterable[Sequence[int]], shapes: list | None = None, names: list | None = None
) -> list[tuple[int, ...]]:
    """Purely combinational evaluation: one tuple of output ints per valuation (inputs in the order of ``ins``).
    If ``shapes`` / ``names`` are lists, the ``Shape`` / name of every output expression is appended to them."""
    sim, in_sigs, out_sigs, _ = _prepare(build, clocked=False)
    if shapes is not None:
        shapes.extend(o.shape() for o in out_sigs)
    if names is not None:
        names.extend(o.name[len("_tv_out_"):] for o in out_sigs)
    rows: list[tuple[int, ...]] = []
    conv = _converters(in_sigs)

    async def tb(ctx):
        for vec in valuations:
            for s, c, v in zip(in_sigs, conv, vec):
                ctx.set(s, c(v))
            rows.append(tuple(ctx.get(o) for o in out_sigs))

    sim.add_testbench(tb)
    sim.run()
    return rows


def evaluate_seq(build: Builder, runs: Iterable[Sequence[Sequence[int]]]) -> list[list[tuple[int, ...]]]:
    """Sequential evaluation.  ``runs`` is a list of histories; every history starts from the reset state (a
    synchronous reset is pulsed for one cycle between two histories).  For each cycle of a history the inputs are set,
    the outputs are sampled after settling (i.e. registered outputs show the state BEFORE this cycle's clock edge,
    combinational outputs react to this cycle's inputs) and then the clock ticks."""
    sim, in_sigs, out_sigs, rst = _prepare(build, clocked=True, with_reset=True)
    result: list[list[tuple[int, ...]]] = []
    conv = _converters(in_sigs)

    async def tb(ctx):
        first = True
        for hist in runs:
            if not first:
                ctx.set(rst, 1)
                await ctx.tick()
                ctx.set(rst, 0)
            first = False
            rows = []
            for vec in hist:
                for s, c, v in zip(in_sigs, conv, vec):
                    ctx.set(s, c(v))
                rows.append(tuple(ctx.get(o) for o in out_sigs))
                await ctx.tick()
            result.append(rows)

    sim.add_testbench(tb)
    sim.run()
    return result


# ---------------------------------------------------------------------------------------------- valuation spaces


def space_size(ranges: Sequence[int]) -> int:
    n = 1
    for r in ranges:
        n *= r
    return n


def full_space(ranges: Sequence[int]) -> list[tuple[int, ...]]:
    """All valuations of inputs with ``ranges[i]`` admissible values (0..ranges[i]-1) each."""
    return list(itertools.product(*[range(r) for r in ranges]))


def edge_biased(n: int):
    """Integer in [0, n) with extra weight on 0, 1, n-1, powers of two and their neighbours."""
    if n <= 1:
        return st.just(0)
    cand = {0, 1, n - 1, n - 2, n // 2}
    for k in range(n.bit_length()):
        cand |= {1 << k, (1 << k) - 1}
    specials = sorted(s for s in cand if 0 <= s < n)
    return st.one_of(st.integers(0, n - 1), st.integers(0, n - 1), st.sampled_from(specials))


@st.composite
def drawn_vals(draw, ranges: Sequence[int], lo: int, hi: int, full_below: int = FULL_SPACE):
    """``None`` (meaning: enumerate the complete space) when the space has at most ``full_below`` (<= FULL_SPACE)
    points, else lo..hi drawn valuations."""
    if space_size(ranges) <= min(full_below, FULL_SPACE):
        return None
    k = draw(st.integers(lo, hi))
    return [[draw(edge_biased(r)) for r in ranges] for _ in range(k)]


def resolve_vals(vals, ranges: Sequence[int]) -> list[tuple[int, ...]]:
    """Valuations of a case: the complete space for ``None`` else the drawn ones (clamped into the ranges)."""
    if vals is None:
        if space_size(ranges) > FULL_SPACE:
            raise ValueError("complete enumeration requested for a space larger than FULL_SPACE")
        return full_space(ranges)
    return [tuple(v % r for v, r in zip(vec, ranges)) for vec in vals]


def to_signed(raw: int, width: int) -> int:
    """Two's-complement reading of a raw ``width``-bit pattern."""
    if width == 0:
        return 0
    raw &= (1 << width) - 1
    return raw - (1 << width) if raw >> (width - 1) else raw


def to_raw(value: int, width: int) -> int:
    return value & ((1 << width) - 1)


def bits(v: int, width: int) -> list[int]:
    return [(v >> i) & 1 for i in range(width)]


def from_bits(bs: Sequence[int]) -> int:
    return sum(b << i for i, b in enumerate(bs))


# ---------------------------------------------------------------------------------------------- judging a target


class Spec:
    """One design under test together with its python oracle.

    build     design builder (see module docstring)
    ranges    number of admissible raw values per input (the *caller domain*: values outside it are never applied)
    oracle    valuation -> tuple with one entry per output: the expected python int, or None where the documentation
              leaves the output undefined for this valuation (never compared)
    classify  valuation -> iterable of class labels (measured into the evidence)            (optional)
    known     valuation -> region key of a known-defect region, or None                     (optional)
    static    list of output Shapes -> error message or None (width/shape promises)         (optional)
    encode    valuation -> raw input values, when the admissible inputs are not a prefix range of the raw values
              (one-hot selects, packed arrays); ranges/oracle/classify/known see the un-encoded valuation  (optional)
    post      (valuations, output rows) -> error message or None, for relations between valuations      (optional)
    """

    def __init__(self, build, ranges, oracle, classify=None, known=None, static=None, out_names=None, encode=None,
                 post=None):
        self.build = build
        self.ranges = list(ranges)
        self.oracle = oracle
        self.classify = classify
        self.known = known
        self.static = static
        self.out_names = out_names
        self.encode = encode
        self.post = post


def run_spec(res, title: str, spec: Spec, vals) -> None:
    """Evaluate ``spec`` on the valuations of a case and judge every defined output.  Fills ``res`` (labels, stats,
    nontrivial = at least two distinct expected output tuples were compared, violation).  All valuations are judged
    before reporting, and a failure outside a known-defect region is preferred, so that a known defect can never
    mask a new one inside the same case."""
    vecs = resolve_vals(vals, spec.ranges)
    shapes: list = []
    names: list = []
    rows = evaluate(spec.build, vecs if spec.encode is None else [spec.encode(v) for v in vecs], shapes, names)
    res.labels.append("full-space" if vals is None else "drawn")
    res.stats["valuations"] = res.stats.get("valuations", 0) + len(vecs)
    if spec.static is not None:
        err = spec.static(shapes)
        if err:
            res.fail(f"{title}: {err}")
            return
    classes: set[str] = set()
    distinct: set = set()
    compared = undefined = 0
    first_new = first_known = None
    for vec, row in zip(vecs, rows):
        exp = spec.oracle(vec)
        if len(exp) != len(row):
            raise AssertionError(f"{title}: oracle arity {len(exp)} != outputs {len(row)}")
        if spec.classify is not None:
            classes.update(spec.classify(vec))
        bad = None
        for k, (e, g) in enumerate(zip(exp, row)):
            if e is None:
                undefined += 1
                continue
            compared += 1
            if e != g and bad is None:
                nm = spec.out_names[k] if spec.out_names else names[k]
                bad = f"{title}: inputs {list(vec)} -> {nm} = {g}, expected {e} (all outputs {list(row)}, expected {list(exp)})"
        distinct.add(tuple(exp))
        if bad is not None:
            key = spec.known(vec) if spec.known is not None else None
            if key is None and first_new is None:
                first_new = bad
            elif key is not None and first_known is None:
                first_known = (bad, key)
    res.stats["compared"] = res.stats.get("compared", 0) + compared
    res.stats["undefined_skipped"] = res.stats.get("undefined_skipped", 0) + undefined
    res.labels.extend(sorted(classes))
    res.nontrivial = len(distinct) >= 2 and compared > 0
    if first_new is None and spec.post is not None:
        err = spec.post(vecs, rows)
        if err:
            first_new = f"{title}: {err}"
    if first_new is not None:
        res.fail(first_new)
    elif first_known is not None:
        res.fail(first_known[0], vkey=first_known[1])
