"""Common data types and helpers shared by all property modules.

A *case* is plain JSON data.  A property module (tv/props/cNN.py) exposes

    ID, RULE, ASSUMPTIONS
    strategy(tier)          -> hypothesis strategy of cases            (optional)
    enumerate_cases(tier)   -> list of cases enumerated exhaustively    (optional)
    budget(tier)            -> dict(examples=..., seconds=..., workers=...)
    run_case(case)          -> Result

and nothing else; the runner (tv/runner.py) does seeding, sharding, known findings,
replay and evidence.
"""

from __future__ import annotations

import hashlib
import json
import os
import sys
import traceback
from dataclasses import dataclass, field
from typing import Any, Optional

VERIF_DIR = os.path.dirname(os.path.dirname(os.path.abspath(__file__)))
REPO_DIR = os.environ.get("VERIF_REPO", "/repo")


class HarnessError(Exception):
    """Raised for problems of the harness itself (bad replay file, ...): exit code 2, never a violation."""


@dataclass
class Result:
    labels: list[str] = field(default_factory=list)
    nontrivial: bool = False
    violation: Optional[str] = None
    # region key used to match known findings (never derived from a message)
    vkey: Optional[str] = None
    stats: dict[str, int] = field(default_factory=dict)

    def fail(self, msg: str, vkey: Optional[str] = None) -> "Result":
        if self.violation is None:
            self.violation = msg
            self.vkey = vkey
        return self


def canon(case: Any) -> str:
    return json.dumps(case, sort_keys=True, separators=(",", ":"))


def case_hash(case: Any) -> str:
    return hashlib.sha1(canon(case).encode()).hexdigest()[:16]


def classify_exception(exc: BaseException) -> str:
    """'library' if the innermost traceback frame is outside /verif (library or amaranth code raised),
    'harness' if our own code raised."""
    tb = traceback.extract_tb(exc.__traceback__)
    if not tb:
        return "harness"
    inner = tb[-1].filename
    return "harness" if os.path.abspath(inner).startswith(VERIF_DIR + os.sep) else "library"


def short_exc(exc: BaseException) -> str:
    msg = str(exc).strip().split("\n")[0][:200]
    tb = traceback.extract_tb(exc.__traceback__)
    where = ""
    if tb:
        fr = tb[-1]
        where = f" at {os.path.relpath(fr.filename, '/')}:{fr.lineno}"
    return f"{type(exc).__name__}: {msg}{where}"


def setup_paths() -> None:
    """Put the repository under test first on sys.path (VERIF_REPO, default /repo)."""
    if REPO_DIR not in sys.path:
        sys.path.insert(0, REPO_DIR)
    if VERIF_DIR not in sys.path:
        sys.path.insert(1, VERIF_DIR)
