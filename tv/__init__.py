"""tv - property-based verification harness for kuznia-rdzeni/transactron (see /verif/DESIGN.md)."""
