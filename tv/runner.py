"""Runner: seeding, sharding over processes, replay tier, known findings, evidence, exit codes.

    python -m tv <ID> [--tier quick|thorough] [--replay FILE] [--workers N] [--examples N] [--seconds S]

exit 0  property held on everything explored (KNOWN-FINDING lines may be printed)
exit 1  'VIOLATION property=<id> replay=<path>' printed
exit 2  harness error
"""

from __future__ import annotations

import argparse
import glob
import importlib
import json
import multiprocessing as mp
import os
import sys
import time
import traceback
import warnings
from collections import Counter
from typing import Any

from .core import (
    HarnessError,
    Result,
    VERIF_DIR,
    REPO_DIR,
    canon,
    case_hash,
    classify_exception,
    setup_paths,
    short_exc,
)

MAX_SAMPLES = 4


def load_prop(pid: str):
    setup_paths()
    return importlib.import_module(f"tv.props.{pid.lower()}")


def load_known(pid: str) -> list[dict]:
    path = os.path.join(VERIF_DIR, "known_findings.json")
    if not os.path.exists(path):
        return []
    with open(path) as f:
        data = json.load(f)
    return [e for e in data.get("findings", []) if e.get("property") == pid]


class CaseTimeout(BaseException):
    pass


CASE_TIMEOUT_S = float(os.environ.get("TV_CASE_TIMEOUT", "180"))


def _on_alarm(signum, frame):
    raise CaseTimeout()


def safe_run_case(mod, case) -> Result:
    """run_case, mapping exceptions raised by library code to violations and our own to HarnessError.

    A watchdog bounds one case: cases normally take milliseconds to a second; a case that is still running after
    CASE_TIMEOUT_S seconds means the simulation does not settle (e.g. a combinational loop oscillating in the
    simulator) - that is reported as a violation of the property under test rather than hanging the check."""
    import signal

    try:
        old = signal.signal(signal.SIGALRM, _on_alarm)
        signal.setitimer(signal.ITIMER_REAL, CASE_TIMEOUT_S)
    except ValueError:  # not in the main thread
        old = None
    try:
        with warnings.catch_warnings():
            warnings.simplefilter("ignore")
            res = mod.run_case(case)
        if not isinstance(res, Result):
            raise HarnessError(f"run_case returned {type(res)}")
        return res
    except HarnessError:
        raise
    except CaseTimeout:
        r = Result(labels=["timeout"])
        r.fail(f"case did not terminate within {CASE_TIMEOUT_S:.0f} s (simulation does not settle / livelock)")
        return r
    except (KeyboardInterrupt, SystemExit):
        raise
    except BaseException as e:  # noqa
        if classify_exception(e) == "library":
            r = Result(labels=["exception"])
            key_fn = getattr(mod, "exception_vkey", None)
            r.fail("library raised " + short_exc(e), vkey=key_fn(case, e) if key_fn else None)
            return r
        raise HarnessError("harness exception: " + short_exc(e) + "\n" + traceback.format_exc()) from e
    finally:
        if old is not None:
            signal.setitimer(signal.ITIMER_REAL, 0)
            signal.signal(signal.SIGALRM, old)


class Acc:
    """Per-worker accumulator."""

    def __init__(self):
        self.evaluations = 0
        self.labels = Counter()
        self.stats = Counter()
        self.nontrivial = set()
        self.samples: dict[str, Any] = {}
        self.known_hits = Counter()
        self.violation = None  # (case, msg, vkey)
        self.skipped = 0
        self.shrink_evals = 0

    def record(self, case, res: Result):
        self.evaluations += 1
        for lab in res.labels:
            self.labels[lab] += 1
        for k, v in res.stats.items():
            self.stats[k] += v
        if res.nontrivial:
            self.nontrivial.add(case_hash(case))
        # keep one sample per label class, prefer non-trivial ones
        if len(self.samples) < MAX_SAMPLES:
            key = "nontrivial" if res.nontrivial else "plain"
            for lab in res.labels[:2] or [key]:
                k = f"{key}:{lab}"
                if k not in self.samples and len(self.samples) < MAX_SAMPLES:
                    self.samples[k] = case

    def to_dict(self):
        return dict(
            evaluations=self.evaluations,
            labels=dict(self.labels),
            stats=dict(self.stats),
            nontrivial=sorted(self.nontrivial),
            samples=self.samples,
            known_hits=dict(self.known_hits),
            violation=self.violation,
            skipped=self.skipped,
            shrink_evals=self.shrink_evals,
        )


def _is_known(known_keys, res: Result) -> bool:
    return res.vkey is not None and res.vkey in known_keys


def worker_hypothesis(args) -> dict:
    pid, tier, seed, n_examples, seconds, known_keys, shrink_seconds, stop_flag = args
    try:
        mod = load_prop(pid)
        import hypothesis
        from hypothesis import HealthCheck, Phase, given, settings

        acc = Acc()
        t_end = [None]  # the budget clock starts with the first case (worker start-up is not charged to it)
        # Hypothesis' shrinker is bounded by a wall-clock cap: once it is exceeded we leave the engine and keep the
        # smallest failing case seen so far.  Cases always come from the strategy, so they stay in the valid domain.
        state = {"failing": None, "t_shrink_end": None}

        class _Viol(Exception):
            pass

        class _StopShrink(KeyboardInterrupt):
            pass

        class _StopCampaign(KeyboardInterrupt):
            pass

        phases = [Phase.generate, Phase.shrink]

        @hypothesis.seed(seed)
        @settings(
            max_examples=n_examples,
            database=None,
            deadline=None,
            derandomize=False,
            report_multiple_bugs=False,
            phases=phases,
            suppress_health_check=list(HealthCheck),
            print_blob=False,
        )
        @given(mod.strategy(tier))
        def campaign(case):
            fail_msg = evaluate(case)
            if fail_msg is not None:
                raise _Viol(fail_msg)  # the only raise site: Hypothesis keys failures by source line

        def evaluate(case):
            if t_end[0] is None:
                t_end[0] = time.time() + seconds
            if state["failing"] is None and (time.time() > t_end[0] or os.path.exists(stop_flag)):
                acc.skipped += 1
                raise _StopCampaign()  # leave the engine at once instead of generating the remaining examples
            if state["failing"] is not None and time.time() > state["t_shrink_end"]:
                raise _StopShrink()  # not an Exception: propagates straight through Hypothesis' engine
            res = safe_run_case(mod, case)
            if state["failing"] is None:
                acc.record(case, res)
            else:
                acc.shrink_evals += 1
            if res.violation is not None:
                if _is_known(known_keys, res):
                    if state["failing"] is None:
                        acc.known_hits[res.vkey] += 1
                    return None
                if state["failing"] is None:
                    state["t_shrink_end"] = time.time() + shrink_seconds
                state["failing"] = (case, res.violation, res.vkey)
                return res.violation
            return None

        try:
            with warnings.catch_warnings():
                warnings.simplefilter("ignore")
                campaign()
        except (_Viol, _StopShrink):
            acc.violation = state["failing"]
        except _StopCampaign:
            pass
        except hypothesis.errors.HypothesisException:
            if state["failing"] is None:
                raise
            acc.violation = state["failing"]  # e.g. Flaky raised by the capped shrinker: keep the last failing case
        out = acc.to_dict()
        out["budget_exhausted"] = acc.skipped > 0 and acc.violation is None and not os.path.exists(stop_flag)
        if acc.violation is not None:
            open(stop_flag, "w").close()  # another worker found a violation: the others stop generating
        return out
    except HarnessError as e:
        return {"harness_error": str(e)}
    except BaseException as e:  # noqa
        return {"harness_error": "worker crashed: " + short_exc(e) + "\n" + traceback.format_exc()}


def worker_enumerate(args) -> dict:
    pid, cases, known_keys, seconds, stop_flag = args
    try:
        mod = load_prop(pid)
        acc = Acc()
        t_end = time.time() + seconds
        for case in cases:
            if time.time() > t_end or os.path.exists(stop_flag):
                acc.skipped += 1
                continue
            res = safe_run_case(mod, case)
            acc.record(case, res)
            if res.violation is not None:
                if _is_known(known_keys, res):
                    acc.known_hits[res.vkey] += 1
                    continue
                acc.violation = (case, res.violation, res.vkey)
                open(stop_flag, "w").close()
                break
        out = acc.to_dict()
        out["budget_exhausted"] = acc.skipped > 0 and not os.path.exists(stop_flag)
        return out
    except HarnessError as e:
        return {"harness_error": str(e)}
    except BaseException as e:  # noqa
        return {"harness_error": "worker crashed: " + short_exc(e) + "\n" + traceback.format_exc()}


def write_violation(pid: str, case, msg: str, vkey) -> str:
    d = os.path.join(VERIF_DIR, "out", "violations", pid)
    os.makedirs(d, exist_ok=True)
    path = os.path.join(d, f"viol-{case_hash(case)}.json")
    with open(path, "w") as f:
        json.dump({"property": pid, "case": case, "message": msg, "vkey": vkey}, f, indent=1, sort_keys=True)
    return path


def derive_seed(seed: int, pid: str, w: int) -> int:
    import hashlib

    h = hashlib.sha256(f"{seed}/{pid}/{w}".encode()).digest()
    return int.from_bytes(h[:6], "big")


def main(argv=None) -> int:
    ap = argparse.ArgumentParser(prog="tv")
    ap.add_argument("pid")
    ap.add_argument("--tier", default=os.environ.get("VERIF_TIER", "quick"), choices=["quick", "thorough"])
    ap.add_argument("--replay", default=None)
    ap.add_argument("--workers", type=int, default=None)
    ap.add_argument("--examples", type=int, default=None, help="examples per worker")
    ap.add_argument("--seconds", type=float, default=None)
    ap.add_argument("--no-evidence", action="store_true")
    a = ap.parse_args(argv)
    pid = a.pid.upper()
    seed = int(os.environ.get("VERIF_SEED", "1") or "1")
    t0 = time.time()

    try:
        mod = load_prop(pid)
    except ModuleNotFoundError as e:
        print(f"HARNESS-ERROR: cannot load property module for {pid}: {e}")
        return 2
    known = load_known(pid)
    known_keys = frozenset(e["key"] for e in known if e.get("status") == "known")

    # ------------------------------------------------------------------ replay of one file
    if a.replay:
        try:
            with open(a.replay) as f:
                data = json.load(f)
            case = data["case"] if isinstance(data, dict) and "case" in data else data
            res = safe_run_case(mod, case)
        except HarnessError as e:
            print(f"HARNESS-ERROR: {e}")
            return 2
        if res.violation is not None:
            if _is_known(known_keys, res):
                what = next(e["what"] for e in known if e["key"] == res.vkey)
                print(f"KNOWN-FINDING: property={pid} {what}")
                return 0
            print(f"violation: {res.violation}")
            print(f"VIOLATION property={pid} replay={a.replay}")
            return 1
        print(f"replay passed: labels={res.labels} stats={res.stats}")
        return 0

    bud = mod.budget(a.tier)
    workers = a.workers or min(bud.get("workers", 16), os.cpu_count() or 1)
    examples = a.examples or bud.get("examples", 100)
    seconds = a.seconds or bud.get("seconds", 60)
    shrink_seconds = float(os.environ.get("TV_SHRINK_SECONDS", "15" if a.tier == "quick" else "240"))

    total = Acc()
    harness_errors = []
    violations = []  # (case, msg, vkey, source)
    budget_exhausted = False
    exhaustive = False

    def merge(out: dict, source: str):
        nonlocal budget_exhausted
        if "harness_error" in out:
            harness_errors.append(out["harness_error"])
            return
        total.evaluations += out["evaluations"]
        total.labels.update(out["labels"])
        total.stats.update(out["stats"])
        total.nontrivial.update(out["nontrivial"])
        total.known_hits.update(out["known_hits"])
        total.skipped += out["skipped"]
        total.shrink_evals += out["shrink_evals"]
        for k, v in out["samples"].items():
            if k not in total.samples and len(total.samples) < MAX_SAMPLES:
                total.samples[k] = v
        budget_exhausted = budget_exhausted or out.get("budget_exhausted", False)
        if out["violation"] is not None:
            c, m, k = out["violation"]
            violations.append((c, m, k, source))

    # ------------------------------------------------------------------ replay tier (committed regression corpus)
    replay_files = sorted(glob.glob(os.path.join(VERIF_DIR, "replays", pid, "*.json")))
    n_replays = 0
    try:
        for rf in replay_files:
            with open(rf) as f:
                data = json.load(f)
            case = data["case"] if isinstance(data, dict) and "case" in data else data
            res = safe_run_case(mod, case)
            n_replays += 1
            total.record(case, res)
            if res.violation is not None:
                if _is_known(known_keys, res):
                    total.known_hits[res.vkey] += 1
                else:
                    violations.append((case, res.violation, res.vkey, rf))
    except HarnessError as e:
        harness_errors.append(str(e))

    # ------------------------------------------------------------------ campaigns
    ctx = mp.get_context("fork")
    os.makedirs(os.path.join(VERIF_DIR, "out"), exist_ok=True)
    stop_flag = os.path.join(VERIF_DIR, "out", f".stop-{pid}-{os.getpid()}")
    if os.path.exists(stop_flag):
        os.unlink(stop_flag)
    if not harness_errors and not violations:
        jobs_enum = []
        if hasattr(mod, "enumerate_cases"):
            cases = list(mod.enumerate_cases(a.tier))
            exhaustive = bool(getattr(mod, "EXHAUSTIVE", False))
            nshard = max(1, min(workers * 4, len(cases)))
            shards = [cases[i::nshard] for i in range(nshard)]
            jobs_enum = [(pid, sh, known_keys, seconds, stop_flag) for sh in shards if sh]
        jobs_hyp = []
        if hasattr(mod, "strategy"):
            jobs_hyp = [
                (pid, a.tier, derive_seed(seed, pid, w), examples, seconds, known_keys, shrink_seconds, stop_flag)
                for w in range(workers)
            ]
        import gc

        gc.collect()
        gc.freeze()  # keep the forked workers from copying / re-scanning the parent's heap
        with ctx.Pool(workers) as pool:
            r1 = pool.map_async(worker_enumerate, jobs_enum, chunksize=1) if jobs_enum else None
            r2 = pool.map_async(worker_hypothesis, jobs_hyp, chunksize=1) if jobs_hyp else None
            if r1 is not None:
                for out in r1.get():
                    merge(out, "enumeration")
            if r2 is not None:
                for out in r2.get():
                    merge(out, "generated")

    if os.path.exists(stop_flag):
        os.unlink(stop_flag)
    wall = time.time() - t0
    rc = 0
    lines = []
    if harness_errors:
        for h in harness_errors[:3]:
            print("HARNESS-ERROR:", h)
        rc = 2
    elif violations:
        case, msg, vkey, source = violations[0]
        path = source if source not in ("generated", "enumeration") else write_violation(pid, case, msg, vkey)
        print(f"violation: {msg}")
        print(f"case: {canon(case)[:2000]}")
        lines.append(f"VIOLATION property={pid} replay={path}")
        rc = 1
    # known findings
    known_reported = []
    for e in known:
        if e.get("status") != "known":
            continue
        if total.known_hits.get(e["key"], 0) > 0:
            lines.append(f"KNOWN-FINDING: property={pid} {e['what']}")
            known_reported.append(e["key"])
        else:
            print(f"note: known finding '{e['key']}' was not reproduced in this run")

    if not a.no_evidence and rc != 2:
        ev = {
            "property_id": pid,
            "tier": a.tier,
            "seed": seed,
            "level": "exploration",
            "coverage": {
                "evaluations": total.evaluations,
                "distinct_nontrivial": len(total.nontrivial),
                "rule": mod.RULE,
                "samples": list(total.samples.values())[:MAX_SAMPLES],
                "labels": dict(sorted(total.labels.items())),
                "stats": dict(sorted(total.stats.items())),
                "replayed_regression_cases": n_replays,
                "known_hits": dict(total.known_hits),
                "known_findings_reported": known_reported,
                "skipped_after_budget": total.skipped,
                "budget_exhausted": budget_exhausted,
                "shrink_evaluations": total.shrink_evals,
                "workers": workers,
                "exhaustive": exhaustive,
                "repo": REPO_DIR,
            },
            "assumptions": list(getattr(mod, "ASSUMPTIONS", [])),
            "wall_s": round(wall, 2),
            "violations": 1 if rc == 1 else 0,
        }
        os.makedirs(os.path.join(VERIF_DIR, "evidence"), exist_ok=True)
        with open(os.path.join(VERIF_DIR, "evidence", f"{pid}.json"), "w") as f:
            json.dump(ev, f, indent=1, sort_keys=True, default=str)
            f.write("\n")
    print(
        f"{pid} tier={a.tier} seed={seed} evaluations={total.evaluations} nontrivial={len(total.nontrivial)} "
        f"known_hits={sum(total.known_hits.values())} wall={wall:.1f}s labels={dict(total.labels.most_common(12))}"
    )
    for ln in lines:
        print(ln)
    return rc
