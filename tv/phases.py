"""History strategy with named phase profiles (used by the allocator / CAM checks C24-C27).

`tv.cyc.history` draws the per-segment request weights uniformly; for components whose interesting states need a
*level* to build up (allocator nearly full, CAM full, ring pointer wrapped) that makes fill phases too rare.  Here a
segment either takes one of the given profiles (fixed weights out of 8 per method, e.g. "fill" = allocate often, free
rarely) or, as in `history`, freely drawn weights.  The record format is the same as in `tv.cyc.history`.
"""

from __future__ import annotations

from hypothesis import strategies as st


@st.composite
def phased_history(
    draw,
    methods: dict[str, list[int]],
    profiles: dict[str, dict[str, int]],
    min_cycles: int,
    max_cycles: int,
    max_segments: int = 4,
    first: tuple[str, ...] = (),
):
    """History = list of cycle records {method: [raw ints] | None}.  `methods` maps a method name to the exclusive
    upper bounds of its raw integers; `profiles` maps a profile name to {method: weight 0..8} (missing = 0); `first`
    optionally restricts the profile of the first segment (a drain phase on an empty component is wasted)."""
    names = list(methods)
    kinds = sorted(profiles) + ["free"]
    nseg = draw(st.integers(1, max_segments))
    total = draw(st.integers(min_cycles, max_cycles))
    per = max(1, total // nseg)
    out = []
    for s in range(nseg):
        kind = draw(st.sampled_from(list(first) if s == 0 and first else kinds))
        if kind == "free":
            w = [draw(st.integers(0, 8)) for _ in names]
        else:
            w = [profiles[kind].get(nm, 0) for nm in names]
        ncyc = per if s < nseg - 1 else max(1, total - per * (nseg - 1))
        for _ in range(ncyc):
            rec = {}
            for nm, wt in zip(names, w):
                if wt and draw(st.integers(0, 7)) < wt:
                    rec[nm] = [draw(st.integers(0, b - 1)) for b in methods[nm]]
                else:
                    rec[nm] = None
            out.append(rec)
    return out
