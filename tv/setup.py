"""setup_cmd: verify that everything the checks need imports offline; install hypothesis from the wheelhouse if absent."""
import os
import subprocess
import sys

from .core import setup_paths, VERIF_DIR


def main() -> int:
    setup_paths()
    try:
        import hypothesis  # noqa: F401
    except ImportError:
        deps = os.path.join(VERIF_DIR, ".deps")
        subprocess.check_call(
            [sys.executable, "-m", "pip", "install", "--no-index", "--find-links", "/opt/veriftools/wheels",
             "--target", deps, "hypothesis"]
        )
        sys.path.insert(0, deps)
        import hypothesis  # noqa: F401
    import amaranth
    import transactron
    from amaranth.sim import Simulator  # noqa: F401

    os.makedirs(os.path.join(VERIF_DIR, "evidence"), exist_ok=True)
    os.makedirs(os.path.join(VERIF_DIR, "out"), exist_ok=True)
    print(f"ok: python {sys.version.split()[0]}, hypothesis {hypothesis.__version__}, amaranth {amaranth.__version__}, "
          f"transactron from {os.path.dirname(transactron.__file__)}")
    return 0


if __name__ == "__main__":
    sys.exit(main())
