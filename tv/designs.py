"""Engine A: generated Transactron designs.

A *design spec* is JSON (see `gen_spec`).  This module contains

  * `analyze(spec)`   - static analysis computed from OUR spec tree only (never from CtrlPath/MethodMap);
  * `Design`          - builds the spec with the public API (TModule, Transaction.body, Method.body, provide, ...);
  * `simulate(spec, vals, visit)` - sets every input valuation, reads every observable, calls `visit(obs)`;
  * `Oracle`          - the semantic predicates of C01..C08 evaluated on one observation;
  * `gen_spec(draw, **opts)` - Hypothesis generator with a deterministic repair pass (well-formed by construction).

Spec
----
{"sched": "eager"|"rr",
 "bodies": [body...],                       top-level bodies in definition order (mod 0 first, then mod 1)
 "rels": [["conf", a, b, "L"|"R"|"U"] | ["sb", a, b]],
 "nvals": int | None                        None: all valuations are enumerated
 "vals": [int...]}                          drawn valuations (used when the input space is too large)
body = {"kind": "T"|"M", "name": str, "mod": 0|1, "rdy": bool, "stmts": [stmt...],
        methods only: "nonex": bool, "iw": 0..2, "ow": 0..2, "val": None|int (validate_arguments: arg != val),
                      "single": bool, "rdep": None|name (ready additionally requires run of that earlier body)}
stmt = {"t": "call", "callee": name, "en": bool, "arg": None|int  (None = per-site input signal), "hops": 0..2,
        "via_methods": bool}
     | {"t": "if", "alts": [[stmt...]...], "else": bool}
     | {"t": "switch", "w": 1|2, "pats": [[int...]...], "default": bool, "alts": [[stmt...]...]}
     | {"t": "fsm", "alts": [[stmt...]...]}
     | {"t": "wit"}
     | {"t": "nt", "body": body(kind T)}     nested transaction
"""

from __future__ import annotations

import itertools
from typing import Any, Callable, Optional

from .core import setup_paths

setup_paths()

from amaranth import *  # noqa: E402,F401,F403
from amaranth.sim import Simulator  # noqa: E402
from hypothesis import strategies as st  # noqa: E402

from transactron import Method, Methods, TModule, Transaction  # noqa: E402
from transactron.core import Priority, TransactionManager, TransactronContextElaboratable  # noqa: E402
from transactron.core.schedulers import trivial_roundrobin_cc_scheduler  # noqa: E402
from transactron.utils.dependencies import DependencyContext, DependencyManager  # noqa: E402

from .cyc import _Top  # noqa: E402

# =====================================================================================================
# static analysis
# =====================================================================================================


def module_items(spec):
    """Definition order: modules in increasing order; inside a module the bodies in spec order, where the first body
    that belongs to a top-level structure (spec["tops"]) pulls in the whole structure.  Yields ("body", body) and
    ("top", top) items."""
    tops = spec.get("tops", [])
    member = {}
    for t in tops:
        for names in t["alts"]:
            for nm in names:
                member[nm] = t
    done = set()
    for mod in sorted({b["mod"] for b in spec["bodies"]}):
        for b in spec["bodies"]:
            if b["mod"] != mod:
                continue
            t = member.get(b["name"])
            if t is None:
                yield "body", b
            elif id(t) not in done:
                done.add(id(t))
                yield "top", t


class Analysis:
    def __init__(self, spec):
        self.spec = spec
        self.bodies: dict[str, dict] = {}  # name -> body spec (incl. nested transactions)
        self.parent: dict[str, Optional[str]] = {}  # nested transaction -> enclosing body
        self.bctx: dict[str, tuple] = {}  # body -> control context of its definition (for nested ones)
        self.deforder: dict[str, int] = {}
        self.sites: list[dict] = []
        self.structs: dict[int, dict] = {}
        self.wits: list[dict] = []
        self.sid_of: dict[int, int] = {}  # id(stmt) -> structure id
        sid = itertools.count()
        site_id = itertools.count()
        wit_id = itertools.count()
        order = itertools.count()

        def walk_body(b, parent, ctx):
            name = b["name"]
            self.bodies[name] = b
            self.parent[name] = parent
            self.bctx[name] = ctx
            self.deforder[name] = next(order)
            walk(b["stmts"], name, ctx + (("B", name),))

        def walk(stmts, owner, ctx):
            for s in stmts:
                t = s["t"]
                if t == "call":
                    self.sites.append(
                        dict(id=next(site_id), owner=owner, callee=s["callee"], en=s["en"], arg=s["arg"], ctx=ctx, s=s)
                    )
                elif t == "wit":
                    self.wits.append(dict(id=next(wit_id), owner=owner, ctx=ctx))
                elif t == "nt":
                    walk_body(s["body"], owner, ctx)
                else:
                    i = next(sid)
                    self.structs[i] = dict(kind=t, s=s, n=len(s["alts"]))
                    self.sid_of[id(s)] = i
                    for a, sub in enumerate(s["alts"]):
                        walk(sub, owner, ctx + ((i, a),))

        for kind_, item in module_items(spec):
            if kind_ == "body":
                walk_body(item, None, ())
            else:  # top-level If/Elif/Else with body definitions inside its alternatives
                i = next(sid)
                self.structs[i] = dict(kind="if", s=item, n=len(item["alts"]))
                self.sid_of[id(item)] = i
                by_name = {b["name"]: b for b in spec["bodies"]}
                for a, names in enumerate(item["alts"]):
                    for nm in names:
                        walk_body(by_name[nm], None, ((i, a),))
        self.by_owner: dict[str, list[dict]] = {}
        for s in self.sites:
            self.by_owner.setdefault(s["owner"], []).append(s)
        self.transactions = [n for n, b in self.bodies.items() if b["kind"] == "T"]
        self.methods = [n for n, b in self.bodies.items() if b["kind"] == "M"]
        self._chains: dict[str, list[tuple]] = {}

    # ---------------------------------------------------------------- structure
    def exclusive(self, name: str) -> bool:
        b = self.bodies[name]
        return b["kind"] == "M" and not b.get("nonex", False)

    def chains(self, root: str) -> list[tuple]:
        """all call chains (tuples of sites) starting in body `root`"""
        if root not in self._chains:
            out = []

            def rec(body, chain, seen):
                for s in self.by_owner.get(body, []):
                    c = chain + (s,)
                    out.append(c)
                    if s["callee"] not in seen:  # recursion guard (ill-formed specs are analysed too)
                        rec(s["callee"], c, seen | {s["callee"]})

            rec(root, (), {root})
            self._chains[root] = out
        return self._chains[root]

    def tree_methods(self, root: str) -> list[str]:
        out = []
        for c in self.chains(root):
            if c[-1]["callee"] not in out:
                out.append(c[-1]["callee"])
        return out

    def reaching_transactions(self, name: str) -> list[str]:
        if self.bodies[name]["kind"] == "T":
            return [name]
        return [t for t in self.transactions if name in self.tree_methods(t)]

    @staticmethod
    def alt_exclusive(c1: tuple, c2: tuple) -> bool:
        """two control contexts diverge at one structure on different alternatives"""
        for a, b in zip(c1, c2):
            if a == b:
                continue
            return a[0] == b[0] and a[0] != "B"
        return False

    def recursion(self) -> Optional[str]:
        for name in self.bodies:
            for c in self.chains(name):
                if c[-1]["callee"] == name or len({s["callee"] for s in c}) < len(c):
                    return name
        return None

    def double_call(self) -> Optional[tuple]:
        """(root, site) of a call that makes an exclusive method reachable twice on non-exclusive paths"""
        for root in self.bodies:
            cs = self.chains(root)
            for c1, c2 in itertools.combinations(cs, 2):
                if c1[-1]["callee"] != c2[-1]["callee"] or not self.exclusive(c1[-1]["callee"]):
                    continue
                k = 0
                while k < min(len(c1), len(c2)) and c1[k] is c2[k]:
                    k += 1
                if k == len(c1) or k == len(c2) or not self.alt_exclusive(c1[k]["ctx"], c2[k]["ctx"]):
                    return root, c2[min(k, len(c2) - 1)]
        return None

    def may_conflict(self, t1: str, t2: str) -> bool:
        """Largest conflict relation the statement of C07 allows (superset of the library's conflict graph)."""
        key = (t1, t2)
        if not hasattr(self, "_mc"):
            self._mc = {}
        if key in self._mc:
            return self._mc[key]
        r = False
        for c1 in self.chains(t1):
            x = c1[-1]["callee"]
            if not self.exclusive(x):
                continue
            for c2 in self.chains(t2):
                if c2[-1]["callee"] != x:
                    continue
                # "non-exclusive call paths": exclusivity is judged where the two call paths first diverge - below a
                # shared nonexclusive ancestor nothing conflicts, otherwise (distinct transactions) at the outermost
                # call sites, which must sit in different alternatives of one control structure
                top = None
                for a, b in zip(reversed(c1), reversed(c2)):
                    if a["callee"] != b["callee"]:
                        break
                    top = a["callee"]
                if top is not None and not self.exclusive(top):
                    continue
                if self.alt_exclusive(c1[0]["ctx"], c2[0]["ctx"]):
                    continue
                r = True
                break
            if r:
                break
        if not r:
            for rel in self.spec.get("rels", []):
                if rel[0] != "conf":
                    continue
                ta, tb = self.reaching_transactions(rel[1]), self.reaching_transactions(rel[2])
                if (t1 in ta and t2 in tb) or (t2 in ta and t1 in tb):
                    r = True
                    break
        self._mc[key] = self._mc[(t2, t1)] = r
        return r

    def allowed_together(self, t1: str, t2: str) -> bool:
        """C01, second sentence: both transactions may run together w.r.t. shared exclusive methods."""
        for c1 in self.chains(t1):
            x = c1[-1]["callee"]
            if not self.exclusive(x):
                continue
            for c2 in self.chains(t2):
                if c2[-1]["callee"] != x:
                    continue
                if c1[-1] is c2[-1]:
                    continue  # same call site in a shared (nonexclusive) ancestor
                if any(self.alt_exclusive(a["ctx"], b["ctx"]) for a in c1 for b in c2):
                    continue
                return False
        return True

    # ---------------------------------------------------------------- inputs
    def inputs(self) -> list[tuple[str, int]]:
        """ordered list of (input name, number of values)"""
        out = []
        for n, b in self.bodies.items():
            if b.get("rdy"):
                out.append((f"rdy:{n}", 2))
            if b["kind"] == "M" and b.get("ow", 0):
                out.append((f"mo:{n}", 1 << b["ow"]))
        for i, stc in self.structs.items():
            s = stc["s"]
            if stc["kind"] == "if":
                ncond = stc["n"] - (1 if s["else"] else 0)
                for a in range(ncond):
                    out.append((f"c:{i}:{a}", 4 if s.get("wide") else 2))
            elif stc["kind"] == "switch":
                out.append((f"sel:{i}", 1 << s["w"]))
            else:
                out.append((f"st:{i}", stc["n"]))
        for s in self.sites:
            if s["en"]:
                out.append((f"en:{s['id']}", 2))
            iw = self.bodies[s["callee"]].get("iw", 0)
            if iw and s["arg"] is None:
                out.append((f"arg:{s['id']}", 1 << iw))
        return out

    def space(self) -> int:
        n = 1
        for _, k in self.inputs():
            n *= k
        return n

    def decode(self, v: int) -> dict[str, int]:
        out = {}
        for name, k in self.inputs():
            out[name] = v % k
            v //= k
        return out

    # ---------------------------------------------------------------- conditions under a valuation
    def alt_taken(self, sid: int, alt: int, val: dict) -> bool:
        stc = self.structs[sid]
        s = stc["s"]
        if stc["kind"] == "if":
            ncond = stc["n"] - (1 if s["else"] else 0)
            # "wide": the condition is the two-bit expression `input & 2` (true iff bit 1 of the input is set)
            holds = (lambda e: bool(val[f"c:{sid}:{e}"] & 2)) if s.get("wide") else (lambda e: bool(val[f"c:{sid}:{e}"]))
            for e in range(min(alt, ncond)):
                if holds(e):
                    return False
            return True if alt >= ncond else holds(alt)
        if stc["kind"] == "switch":
            sel = val[f"sel:{sid}"]
            npat = len(s["pats"])
            for e in range(min(alt, npat)):
                if sel in s["pats"][e]:
                    return False
            return True if alt >= npat else sel in s["pats"][alt]
        return val[f"st:{sid}"] == alt

    def cond(self, ctx: tuple, val: dict) -> bool:
        """ordinary (non-body) conditions of a control context"""
        return all(self.alt_taken(e[0], e[1], val) for e in ctx if e[0] != "B")

    def enclosing_bodies(self, ctx: tuple) -> list[str]:
        return [e[1] for e in ctx if e[0] == "B"]

    def site_arg(self, s: dict, val: dict) -> int:
        return val[f"arg:{s['id']}"] if s["arg"] is None else s["arg"]


def priority_edges(an: Analysis) -> list[tuple[str, str]]:
    """(ta, tb): ta must be scheduled before tb (nesting, schedule_before, run-dependent ready, LEFT/RIGHT)"""
    edges = []
    for t in an.transactions:
        par = an.parent[t]
        if par is not None:
            edges += [(ta, t) for ta in an.reaching_transactions(par)]
    pairs = []
    for mname in an.methods:  # a method defined inside another body: the enclosing body is scheduled before it
        if an.parent[mname] is not None:
            pairs.append((an.parent[mname], mname))
    for rel in an.spec.get("rels", []):
        if rel[0] in ("sb", "sbr") or (rel[0] == "conf" and rel[3] == "L"):
            pairs.append((rel[1], rel[2]))
        elif rel[0] == "conf" and rel[3] == "R":
            pairs.append((rel[2], rel[1]))
    for b in an.bodies.values():
        if b.get("rdep"):
            pairs.append((b["rdep"], b["name"]))
    for a, b in pairs:
        edges += [(ta, tb) for ta in an.reaching_transactions(a) for tb in an.reaching_transactions(b)]
    return edges


def acyclic(nodes, edges) -> bool:
    succ = {n: set() for n in nodes}
    for a, b in edges:
        if a == b:
            return False
        succ[a].add(b)
    state = {}

    def dfs(n):
        state[n] = 1
        for k in succ[n]:
            if state.get(k) == 1 or (k not in state and not dfs(k)):
                return False
        state[n] = 2
        return True

    return all(dfs(n) for n in nodes if n not in state)


def relations_ok(spec) -> bool:
    """our own well-formedness judgement for relations: priorities acyclic, schedule_before follows definition
    order, no nested transaction conflicting with the transaction it is directly nested in"""
    an = analyze(spec)
    for rel in spec.get("rels", []):
        if rel[0] in ("sb", "sbr") and an.deforder[rel[1]] > an.deforder[rel[2]]:
            return False
        if rel[0] == "sbr" and rel[1] in an.transactions and rel[2] in an.transactions and an.may_conflict(rel[1], rel[2]):
            return False  # ready-dependent on a conflicting transaction: rejected as a deadlock
    for b in an.bodies.values():
        if b.get("rdep") and an.deforder[b["rdep"]] > an.deforder[b["name"]]:
            return False
    if not acyclic(an.transactions, priority_edges(an)):
        return False
    for t in an.transactions:
        par = an.parent[t]
        if par is not None and an.bodies[par]["kind"] == "T" and an.may_conflict(t, par):
            return False
    return True


def analyze(spec) -> Analysis:
    return Analysis(spec)


# =====================================================================================================
# builder
# =====================================================================================================


def _or_combiner(m, args, runs):
    result = C(0, len(args[0].a) if args else 1)
    for i, v in enumerate(args):
        result = result | Mux(runs[i], v.a, 0)
    return {"a": result}


def _neq(k):
    return lambda a: a != k


def _sum1_combiner(m, args, runs):
    """sum of (argument + 1) over the active calls - NOT the identity on a single argument"""
    w = len(args[0].a) if args else 1
    result = C(0, w)
    for i, v in enumerate(args):
        result = (result + Mux(runs[i], v.a + 1, 0))[:w]
    return {"a": result}


class _Sub(Elaboratable):
    def __init__(self, design: "Design", mod: int):
        self.design = design
        self.mod = mod
        d = design
        for n, b in d.an.bodies.items():
            if b["mod"] != mod:
                continue
            if b["kind"] == "M":  # also the methods defined inside other bodies: their callers need the object
                i = [("a", b["iw"])] if b.get("iw") else []
                o = [("o", b["ow"])] if b.get("ow") else []
                d.obj[n] = Method(name=n, i=i, o=o)
            else:  # nested transactions, too: relations may name them
                d.obj[n] = Transaction(name=n)

    def elaborate(self, platform):
        d = self.design
        an = d.an
        m = TModule()

        def callee_via(s):
            """the Method object through which the site calls (alias chain built with provide / Methods.provide)"""
            target = d.obj[s["callee"]]
            for _ in range(s["s"].get("hops", 0)):
                if s["s"].get("via_methods"):
                    ms = Methods(1, name=f"al{s['id']}", i=target.layout_in, o=target.layout_out)
                    ms.provide([target])
                    target = ms[0]
                else:
                    al = Method.like(target, name=f"al{s['id']}")
                    al.provide(target)
                    target = al
                d.aliases.setdefault(s["callee"], []).append(target)
            return target

        site_iter = {id(s["s"]): s for s in an.sites}
        wit_iter = iter([w for w in an.wits])
        wits_by_stmt = {}
        # wits are visited in the same order as in the analysis (bodies sorted by mod, statements in order)

        def emit(stmts, owner):
            for s in stmts:
                t = s["t"]
                if t == "call":
                    site = site_iter[id(s)]
                    meth = callee_via(site)
                    b = an.bodies[s["callee"]]
                    kw = {}
                    if s["en"]:
                        kw["enable_call"] = d.inp[f"en:{site['id']}"]
                    if b.get("iw"):
                        arg = d.inp[f"arg:{site['id']}"] if s["arg"] is None else C(s["arg"], b["iw"])
                        ret = meth(m, a=arg, **kw)
                    else:
                        ret = meth(m, **kw)
                    if b.get("ow"):
                        m.d.top_comb += d.res[site["id"]].eq(ret.o)
                elif t == "wit":
                    w = d.wit_of_stmt[id(s)]
                    m.d.comb += d.wit[(w, "comb")].eq(1)
                    m.d.av_comb += d.wit[(w, "av_comb")].eq(1)
                    m.d.top_comb += d.wit[(w, "top_comb")].eq(1)
                    m.d.sync += d.wit[(w, "sync")].eq(d.wit[(w, "sync")] + 1)
                elif t == "nt" and s["body"]["kind"] == "M":
                    define(s["body"])
                elif t == "nt":
                    nb = s["body"]
                    tr = d.obj[nb["name"]]
                    with tr.body(m, ready=d.inp[f"rdy:{nb['name']}"] if nb.get("rdy") else C(1)):
                        emit(nb["stmts"], nb["name"])
                elif t == "if":
                    sid = an.sid_of[id(s)]
                    n = len(s["alts"])
                    ncond = n - (1 if s["else"] else 0)
                    for a, sub in enumerate(s["alts"]):
                        cexp = (lambda q: (d.inp[q] & 2)) if s.get("wide") else (lambda q: d.inp[q])
                        if a == 0:
                            cm = m.If(cexp(f"c:{sid}:0"))
                        elif a < ncond:
                            cm = m.Elif(cexp(f"c:{sid}:{a}"))
                        else:
                            cm = m.Else()
                        with cm:
                            emit(sub, owner)
                elif t == "switch":
                    sid = an.sid_of[id(s)]
                    with m.Switch(d.inp[f"sel:{sid}"]):
                        for a, sub in enumerate(s["alts"]):
                            cm = m.Case(*s["pats"][a]) if a < len(s["pats"]) else m.Default()
                            with cm:
                                emit(sub, owner)
                elif t == "fsm":
                    sid = an.sid_of[id(s)]
                    n = len(s["alts"])
                    with m.FSM(init="S0", name=f"fsm{sid}") as fsm:
                        d.fsm[sid] = fsm
                        for a, sub in enumerate(s["alts"]):
                            with m.State(f"S{a}"):
                                emit(sub, owner)
                                m.next = f"S{(a + 1) % n}"
                else:
                    raise AssertionError(t)

        def define(b):
            n = b["name"]
            rdy = d.inp[f"rdy:{n}"] if b.get("rdy") else C(1)
            if b.get("rdep"):
                rdy = rdy & d.obj[b["rdep"]].run
            if b.get("rdy_parent"):  # a nested body whose readiness uses the run signal of the body it is defined in
                rdy = rdy & d.obj[an.parent[n]].run
            if b["kind"] == "M":
                kw: dict[str, Any] = {}
                if b.get("nonex"):
                    kw["nonexclusive"] = True
                    if b.get("iw"):
                        kw["combiner"] = _sum1_combiner if b.get("comb") == "sum1" else _or_combiner
                if b.get("single"):
                    kw["single_caller"] = True
                if b.get("val") is not None and b.get("iw"):
                    kw["validate_arguments"] = _neq(b["val"])
                out = Signal(d.obj[n].layout_out, name=f"out_{n}")
                with d.obj[n].body(m, ready=rdy, out=out, **kw) as arg:
                    if b.get("ow"):
                        m.d.top_comb += out.o.eq(d.inp[f"mo:{n}"] + (arg.a if b.get("iw") else 0))
                    emit(b["stmts"], n)
            else:
                with d.obj[n].body(m, ready=rdy):
                    emit(b["stmts"], n)

        by_name = {b["name"]: b for b in d.spec["bodies"]}
        for kind_, item in module_items(d.spec):
            if kind_ == "body":
                if item["mod"] == self.mod:
                    define(item)
            elif by_name[item["alts"][0][0]]["mod"] == self.mod:
                sid = an.sid_of[id(item)]
                nalt = len(item["alts"])
                ncond = nalt - (1 if item["else"] else 0)
                for a, names in enumerate(item["alts"]):
                    cm = m.If(d.inp[f"c:{sid}:0"]) if a == 0 else (m.Elif(d.inp[f"c:{sid}:{a}"]) if a < ncond else m.Else())
                    with cm:
                        for nm in names:
                            define(by_name[nm])
        return m


class Design(Elaboratable):
    def __init__(self, spec, an: Optional[Analysis] = None):
        self.spec = spec
        self.an = an or analyze(spec)
        self.obj: dict[str, Any] = {}
        self.aliases: dict[str, list] = {}
        self.fsm: dict[int, Any] = {}
        self.inp: dict[str, Signal] = {}
        for name, k in self.an.inputs():
            if name.startswith("st:"):
                continue  # FSM state registers are poked directly
            self.inp[name] = Signal(range(k) if k > 1 else 1, name=name.replace(":", "_"))
        self.res: dict[int, Signal] = {}
        for s in self.an.sites:
            ow = self.an.bodies[s["callee"]].get("ow", 0)
            if ow:
                self.res[s["id"]] = Signal(ow, name=f"res{s['id']}")
        self.wit: dict[tuple, Signal] = {}
        self.wit_of_stmt: dict[int, int] = {}
        # map wit statements (by identity) to ids in analysis order
        wit_stmts = []

        def collect(stmts):
            for s in stmts:
                if s["t"] == "wit":
                    wit_stmts.append(s)
                elif s["t"] == "nt":
                    collect(s["body"]["stmts"])
                elif s["t"] != "call":
                    for sub in s["alts"]:
                        collect(sub)

        by_name = {b["name"]: b for b in spec["bodies"]}
        for kind_, item in module_items(spec):
            if kind_ == "body":
                collect(item["stmts"])
            else:
                for names in item["alts"]:
                    for nm in names:
                        collect(by_name[nm]["stmts"])
        for i, s in enumerate(wit_stmts):
            self.wit_of_stmt[id(s)] = i
            for dom in ("comb", "av_comb", "top_comb"):
                self.wit[(i, dom)] = Signal(name=f"w{i}_{dom}")
            self.wit[(i, "sync")] = Signal(4, name=f"w{i}_sync")
        mods = sorted({b["mod"] for b in spec["bodies"]})
        self.subs = [_Sub(self, mod) for mod in mods]
        # relations are declared on the public objects, as a user would
        pr = {"L": Priority.LEFT, "R": Priority.RIGHT, "U": Priority.UNDEFINED}

        def declare_rdep():
            for b in spec["bodies"]:
                if b.get("rdep"):
                    self.obj[b["rdep"]].schedule_before(self.obj[b["name"]])

        if spec.get("rdep_first"):
            declare_rdep()
        for rel in spec.get("rels", []):
            if rel[0] == "sb":
                self.obj[rel[1]].schedule_before(self.obj[rel[2]])
            elif rel[0] == "sbr":
                self.obj[rel[1]].schedule_before(self.obj[rel[2]], ready_dependent=True)
            else:
                end = self.obj[rel[2]]
                if len(rel) > 4 and rel[4] == "A" and self.an.bodies[rel[2]]["kind"] == "M":
                    # the relation names a forwarding method (Method.like + provide) instead of the method itself
                    alias = Method.like(end, name=f"relalias_{rel[2]}")
                    alias.provide(end)
                    end = alias
                self.obj[rel[1]].add_conflict(end, pr[rel[3]])
        if not spec.get("rdep_first"):
            declare_rdep()

    def elaborate(self, platform):
        m = Module()
        for i, sub in enumerate(self.subs):
            m.submodules[f"sub{i}"] = sub
        return m


class Built:
    """An elaborated design inside a simulator."""

    def __init__(self, spec, an: Optional[Analysis] = None):
        self.spec = spec
        self.an = an or analyze(spec)
        self.dm = DependencyManager()
        with DependencyContext(self.dm):
            self.design = Design(spec, self.an)
            sched = trivial_roundrobin_cc_scheduler if spec.get("sched") == "rr" else None
            self.tm = TransactionManager(sched) if sched else TransactionManager()
            self.tce = TransactronContextElaboratable(self.design, dependency_manager=self.dm, transaction_manager=self.tm)
            self.top = _Top(self.tce)
            self.sim = Simulator(self.top)
            self.sim.add_clock(1e-6)


def try_build(spec, an=None):
    """returns (Built, None) or (None, exception)"""
    try:
        return Built(spec, an), None
    except Exception as e:  # noqa
        return None, e


class Obs:
    """One observation: input valuation + observed signals (all python ints)."""

    __slots__ = ("val", "run", "din", "dout", "res", "wit", "alias_run", "sync_before", "sync_after")


def simulate(built: Built, vals, visit: Callable[[Obs], Optional[str]], tick: bool = False) -> Optional[str]:
    """For each valuation (int) set all inputs, settle, observe, call visit(obs).  Stops at the first message
    returned by visit and returns it."""
    an, d = built.an, built.design
    inputs = an.inputs()
    sigs_in = []
    for name, k in inputs:
        if name.startswith("st:"):
            sigs_in.append(d.fsm[int(name[3:])].state)
        else:
            sigs_in.append(d.inp[name])
    obs_sigs: list[tuple[tuple, Any]] = []
    for n in an.bodies:
        o = d.obj[n]
        obs_sigs.append((("run", n), o.run))
        if an.bodies[n]["kind"] == "M":
            if an.bodies[n].get("iw"):
                obs_sigs.append((("din", n), o.data_in.a))
            if an.bodies[n].get("ow"):
                obs_sigs.append((("dout", n), o.data_out.o))
            for j, al in enumerate(d.aliases.get(n, [])):
                obs_sigs.append((("alias_run", (n, j)), al.run))
    for sid, sg in d.res.items():
        obs_sigs.append((("res", sid), sg))
    for key, sg in d.wit.items():
        obs_sigs.append((("wit", key), sg))
    widths = [len(Value.cast(sg)) for _, sg in obs_sigs]
    cat = Cat(*[sg for _, sg in obs_sigs]) if obs_sigs else C(0, 1)
    out: list[Optional[str]] = [None]
    sync_keys = [key for key in d.wit if key[1] == "sync"]

    async def tb(ctx):
        for v in vals:
            val = an.decode(v)
            for (name, _), sg in zip(inputs, sigs_in):
                ctx.set(sg, val[name])
            word = ctx.get(cat)
            ob = Obs()
            ob.val = val
            ob.run, ob.din, ob.dout, ob.res, ob.wit, ob.alias_run = {}, {}, {}, {}, {}, {}
            for (key, _), w in zip(obs_sigs, widths):
                getattr(ob, key[0])[key[1]] = word & ((1 << w) - 1)
                word >>= w
            ob.sync_before = {k[0]: ob.wit[k] for k in sync_keys}
            ob.sync_after = None
            if tick:
                await ctx.tick()
                ob.sync_after = {k[0]: ctx.get(d.wit[k]) for k in sync_keys}
            msg = visit(ob)
            if msg is not None:
                out[0] = msg
                return

    with DependencyContext(built.dm):
        built.sim.add_testbench(tb)
        built.sim.run()
    return out[0]


# =====================================================================================================
# oracle predicates
# =====================================================================================================


class Oracle:
    """Semantic predicates over one observation.  Each check_* returns None or a message."""

    def __init__(self, an: Analysis):
        self.an = an
        self.stats = dict(blocked=0, blocked_by_callee=0, blocked_by_validation=0, blocked_by_callee_parent=0,
                          blocked_by_ready_dependency=0, multi_run=0, active_sites=0)

    # -- helpers
    def site_active(self, s, ob: Obs) -> bool:
        an = self.an
        return bool(
            ob.run[s["owner"]] and an.cond(s["ctx"], ob.val) and (ob.val[f"en:{s['id']}"] if s["en"] else 1)
        )

    def chain_enabled(self, c, ob: Obs) -> bool:
        """all sites of the chain have their conditions and enable_call true (independent of who runs)"""
        an = self.an
        return all(an.cond(s["ctx"], ob.val) and (ob.val[f"en:{s['id']}"] if s["en"] else 1) for s in c)

    def body_ready(self, n: str, ob: Obs) -> bool:
        """the generated ready expression of a body: input, placement conditions, run-dependent part"""
        an = self.an
        b = an.bodies[n]
        r = bool(ob.val[f"rdy:{n}"]) if b.get("rdy") else True
        r = r and an.cond(an.bctx[n], ob.val)
        if b.get("rdep"):
            r = r and bool(ob.run[b["rdep"]])
        if b.get("rdy_parent"):
            r = r and bool(ob.run[an.parent[n]])
        return r

    def enabled(self, t: str, ob: Obs) -> tuple[bool, str]:
        """C03's right-hand side.  Returns (enabled, first reason why not)"""
        an = self.an
        if not self.body_ready(t, ob):
            return False, "own"
        par = an.parent[t]
        if par is not None and not ob.run[par]:
            return False, "parent"
        for mname in an.tree_methods(t):
            if not self.body_ready(mname, ob):
                return False, "callee"
            mpar = an.parent[mname]
            if mpar is not None and not ob.run[mpar]:
                return False, "callee_parent"
        for rel in an.spec.get("rels", []):
            if rel[0] == "sbr" and (rel[2] == t or rel[2] in an.tree_methods(t)) and not ob.run[rel[1]]:
                return False, "ready_dependency"
        for c in an.chains(t):
            mb = an.bodies[c[-1]["callee"]]
            if mb.get("val") is not None and mb.get("iw") and self.chain_enabled(c, ob):
                if an.site_arg(c[-1], ob.val) == mb["val"]:
                    return False, "validation"
        return True, ""

    # -- C01
    def check_c01(self, ob: Obs) -> Optional[str]:
        an = self.an
        for mname in an.methods:
            if not an.exclusive(mname):
                continue
            act = [s["id"] for s in an.sites if s["callee"] == mname and self.site_active(s, ob)]
            self.stats["active_sites"] += len(act)
            if len(act) > 1:
                return f"exclusive method {mname} has {len(act)} active call sites {act} in one cycle; val={ob.val}"
        running = [t for t in an.transactions if ob.run[t]]
        if len(running) > 1:
            self.stats["multi_run"] += 1
        for t1, t2 in itertools.combinations(running, 2):
            if not an.allowed_together(t1, t2):
                return f"transactions {t1} and {t2} run together although both reach an exclusive method on non-exclusive paths; val={ob.val}"
        return None

    # -- C03
    def check_c03(self, ob: Obs) -> Optional[str]:
        for t in self.an.transactions:
            if ob.run[t]:
                en, why = self.enabled(t, ob)
                if not en:
                    return f"transaction {t} runs although not fully enabled ({why}); val={ob.val}"
        return None

    # -- C04
    def check_c04(self, ob: Obs) -> Optional[str]:
        an = self.an
        for mname in an.methods:
            n = sum(1 for s in an.sites if s["callee"] == mname and self.site_active(s, ob))
            if bool(ob.run[mname]) != (n > 0):
                return f"method {mname} run={ob.run[mname]} but {n} active call sites; val={ob.val}"
        for (mname, j), r in ob.alias_run.items():
            if r != ob.run[mname]:
                return f"alias {j} of {mname} has run={r} but the method has run={ob.run[mname]}"
        for t in an.transactions:
            par = an.parent[t]
            if par is not None and ob.run[t] and not ob.run[par]:
                return f"nested transaction {t} runs while its enclosing body {par} does not; val={ob.val}"
        for mname in an.methods:
            par = an.parent[mname]
            if par is not None and ob.run[mname] and not ob.run[par]:
                return f"method {mname} defined inside {par} runs while its enclosing body does not; val={ob.val}"
        return None

    # -- C05
    def check_c05(self, ob: Obs) -> Optional[str]:
        an = self.an
        for mname in an.methods:
            b = an.bodies[mname]
            sites = [s for s in an.sites if s["callee"] == mname]
            act = [s for s in sites if self.site_active(s, ob)]
            if b.get("iw") and ob.run[mname] and act:
                if an.exclusive(mname):
                    if len(act) == 1 and ob.din[mname] != an.site_arg(act[0], ob.val):
                        return f"method {mname} sees input {ob.din[mname]} but its active call passes {an.site_arg(act[0], ob.val)}; val={ob.val}"
                else:
                    exp = 0
                    for s in act:
                        if b.get("comb") == "sum1":
                            exp = (exp + an.site_arg(s, ob.val) + 1) % (1 << b["iw"])
                        else:
                            exp |= an.site_arg(s, ob.val)
                    if ob.din[mname] != exp:
                        return f"nonexclusive method {mname} sees {ob.din[mname]} but its combiner ({b.get('comb') or 'or'}) over the active arguments gives {exp}; val={ob.val}"
            if b.get("ow"):
                if ob.run[mname] or not b.get("iw"):
                    exp = (ob.val[f"mo:{mname}"] + (ob.din[mname] if b.get("iw") else 0)) % (1 << b["ow"])
                    if ob.dout[mname] != exp:
                        return f"method {mname} output {ob.dout[mname]} != f(input)={exp}"
                for s in sites:
                    if ob.res[s["id"]] != ob.dout[mname]:
                        return f"call site {s['id']} of {mname} observes result {ob.res[s['id']]} but the method outputs {ob.dout[mname]}; val={ob.val}"
        return None

    # -- C06
    def check_c06(self, ob: Obs) -> Optional[str]:
        an = self.an
        for w in an.wits:
            i = w["id"]
            cond = an.cond(w["ctx"], ob.val)
            runs = all(ob.run[b] for b in an.enclosing_bodies(w["ctx"]))
            exp_comb = int(cond and runs)
            if ob.wit[(i, "comb")] != exp_comb:
                return f"comb witness {i} = {ob.wit[(i, 'comb')]} expected {exp_comb} (cond={cond}, bodies run={runs}); val={ob.val}"
            if ob.wit[(i, "av_comb")] != int(cond):
                return f"av_comb witness {i} = {ob.wit[(i, 'av_comb')]} expected {int(cond)}; val={ob.val}"
            if ob.wit[(i, "top_comb")] != 1:
                return f"top_comb witness {i} is 0"
            if ob.sync_after is not None:
                exp = (ob.sync_before[i] + exp_comb) % 16
                if ob.sync_after[i] != exp:
                    return f"sync witness {i} went {ob.sync_before[i]} -> {ob.sync_after[i]}, expected {exp}; val={ob.val}"
        return None

    # -- C07
    def check_c07(self, ob: Obs) -> Optional[str]:
        an = self.an
        for t in an.transactions:
            if ob.run[t]:
                continue
            en, _ = self.enabled(t, ob)
            if en:
                self.stats["blocked"] += 1
                if not any(ob.run[u] and an.may_conflict(t, u) for u in an.transactions if u != t):
                    return f"transaction {t} is fully enabled but does not run and no conflicting transaction runs; running={[u for u in an.transactions if ob.run[u]]} val={ob.val}"
        return None

    def classify_blocking(self, ob: Obs):
        """statistics for the non-triviality rule of C03"""
        for t in self.an.transactions:
            if not ob.run[t]:
                _, why = self.enabled(t, ob)
                if why == "callee":
                    self.stats["blocked_by_callee"] += 1
                elif why == "validation":
                    self.stats["blocked_by_validation"] += 1
                elif why in ("callee_parent", "ready_dependency"):
                    self.stats["blocked_by_" + why] += 1

    # -- C02
    def check_c02(self, ob: Obs) -> Optional[str]:
        """sets self.c02_same_transaction when the offending pair is run by ONE transaction reaching both bodies"""
        an = self.an
        for rel in an.spec.get("rels", []):
            if rel[0] != "conf":
                continue
            if ob.run[rel[1]] and ob.run[rel[2]]:
                both = [
                    t
                    for t in an.transactions
                    if ob.run[t] and t in an.reaching_transactions(rel[1]) and t in an.reaching_transactions(rel[2])
                ]
                self.c02_same_transaction = bool(both)
                return f"add_conflict({rel[1]}, {rel[2]}, {rel[3]}) but both run in one cycle (transactions reaching both: {both}); val={ob.val}"
        return None

    # -- C08
    def check_c08(self, ob: Obs) -> Optional[str]:
        an = self.an
        for rel in an.spec.get("rels", []):
            if rel[0] == "conf" and rel[3] in ("L", "R"):
                hi_b, lo_b = (rel[1], rel[2]) if rel[3] == "L" else (rel[2], rel[1])
                for hi in an.reaching_transactions(hi_b):
                    for lo in an.reaching_transactions(lo_b):
                        if hi == lo:
                            continue
                        if self.enabled(hi, ob)[0] and self.enabled(lo, ob)[0]:
                            self.stats["prio_both"] = self.stats.get("prio_both", 0) + 1
                            if ob.run[lo] and not any(
                                ob.run[u] and an.may_conflict(hi, u) for u in an.transactions if u not in (hi, lo)
                            ):
                                return f"lower-priority {lo} runs while higher-priority {hi} is enabled and unblocked ({rel}); val={ob.val}"
        return None


# =====================================================================================================
# generator
# =====================================================================================================


@st.composite
def gen_spec(
    draw,
    *,
    max_methods=4,
    max_trans=3,
    allow_nt=True,
    allow_fsm=True,
    allow_switch=True,
    allow_wit=False,
    allow_data=True,
    allow_validate=True,
    allow_alias=True,
    allow_rels=False,
    allow_rdep=False,
    allow_nm=False,
    rdep_bias=False,
    allow_mods=True,
    sched=None,
    max_space=512,
    nvals=256,
    wit_bias=False,
    min_rels=0,
    rel_kinds=("conf", "conf", "sb"),
    allow_if=True,
    allow_chain=True,
    allow_same_trans_conf=True,
    allow_enable=True,
    nonex_rate=3,
    min_trans=1,
    fsm_rate=1,
    dup_rels=True,
    allow_tops=True,
    inject_shapes=True,
):
    nm = draw(st.integers(1, max_methods))
    nt = draw(st.integers(min_trans, max_trans))
    two_mods = allow_mods and draw(st.integers(0, 3)) == 0
    schedv = sched or draw(st.sampled_from(["eager", "eager", "rr"]))
    if schedv == "rr":
        allow_nt = False
        allow_rdep = False
        allow_nm = False
    if allow_rdep:
        rel_kinds = tuple(rel_kinds) + ("sbr",)
    bodies = []
    for i in range(nm):
        nonex = draw(st.integers(0, 9)) >= 10 - nonex_rate
        iw = draw(st.sampled_from([0, 0, 1, 2])) if allow_data else 0
        ow = draw(st.sampled_from([0, 0, 1, 2])) if allow_data else 0
        val = None
        if allow_validate and iw and draw(st.integers(0, 2)) == 0:
            val = draw(st.integers(0, (1 << iw) - 1))
        bodies.append(
            dict(
                kind="M",
                name=f"m{i}",
                mod=draw(st.integers(0, 1)) if two_mods else 0,
                rdy=draw(st.integers(0, 9)) < 7,
                nonex=nonex,
                comb=draw(st.sampled_from(["or", "sum1"])) if (nonex and iw) else None,
                iw=iw,
                ow=ow,
                val=val,
                single=False,
                rdep=None,
                stmts=[],
            )
        )
    for i in range(nt):
        bodies.append(
            dict(kind="T", name=f"t{i}", mod=draw(st.integers(0, 1)) if two_mods else 0, rdy=draw(st.integers(0, 9)) < 8, stmts=[])
        )
    nt_counter = itertools.count()

    def gen_stmts(owner_idx, depth, allowed, in_nt):
        out = []
        n = draw(st.integers(0, 2 if depth else 3))
        for _ in range(n):
            k = draw(st.integers(0, 19))
            if allowed and k < 11:
                callee = draw(st.sampled_from(allowed))
                cb = bodies[callee]
                arg = None
                if cb["iw"] and draw(st.integers(0, 2)) == 0:
                    arg = draw(st.integers(0, (1 << cb["iw"]) - 1))
                hops = draw(st.sampled_from([0, 0, 0, 1, 2])) if allow_alias else 0
                out.append(
                    dict(t="call", callee=cb["name"], en=allow_enable and draw(st.integers(0, 9)) < 3, arg=arg, hops=hops,
                         via_methods=bool(hops and draw(st.integers(0, 2)) == 0))
                )
            elif k < 12 and allow_wit or (wit_bias and k < 15):
                out.append(dict(t="wit"))
            elif depth < 2 and k < 16 and allow_if:
                nalt = draw(st.integers(1, 3))
                alts = [gen_stmts(owner_idx, depth + 1, allowed, in_nt) for _ in range(nalt)]
                # the same callee in several alternatives (two exclusive call sites of one method in one body)
                if nalt > 1 and draw(st.integers(0, 2)) == 0:
                    calls0 = [c for c in alts[0] if c["t"] == "call"]
                    for a in alts[1:]:
                        for c in calls0:
                            a.append(dict(c, en=allow_enable and draw(st.integers(0, 3)) == 0,
                                          arg=None if (c["arg"] is None or draw(st.booleans())) else c["arg"]))
                out.append(dict(t="if", alts=alts, wide=draw(st.integers(0, 3)) == 0, **{"else": nalt > 1 and draw(st.booleans())}))
            elif depth < 2 and k < 17 and allow_switch:
                w = draw(st.integers(1, 2))
                vals = list(range(1 << w))
                ncase = draw(st.integers(1, min(3, len(vals))))
                default = draw(st.booleans())
                pats = []
                pool = list(vals)
                for _c in range(ncase):
                    if not pool:
                        break
                    take = draw(st.integers(1, min(2, len(pool))))
                    pats.append(pool[:take])
                    pool = pool[take:]
                nalt = len(pats) + (1 if default else 0)
                out.append(dict(t="switch", w=w, pats=pats, default=default,
                                alts=[gen_stmts(owner_idx, depth + 1, allowed, in_nt) for _ in range(nalt)]))
            elif depth < 2 and (k < 18 or (k < 17 + fsm_rate)) and allow_fsm:
                nalt = draw(st.integers(2, 3))
                out.append(dict(t="fsm", alts=[gen_stmts(owner_idx, depth + 1, allowed, in_nt) for _ in range(nalt)]))
            elif allow_nt and not in_nt and depth < 2 and k < 20:
                nb = dict(kind="T", name=f"n{next(nt_counter)}", mod=bodies[owner_idx]["mod"],
                          rdy=draw(st.integers(0, 9)) < 6, stmts=[])
                nb["stmts"] = gen_stmts(owner_idx, depth + 1, allowed, True)
                out.append(dict(t="nt", body=nb))
        return out

    for idx, b in enumerate(bodies):
        allowed = [j for j in range(nm) if (b["kind"] == "T" or (allow_chain and j > idx))]
        b["stmts"] = gen_stmts(idx, 0, allowed, False)
    if inject_shapes and allow_chain and draw(st.integers(0, 3)) == 0:
        # shape: an exclusive method X reached directly AND through a nonexclusive wrapper N (N calls X): one
        # transaction calls N, another calls N in one alternative and X in the other alternative of an If
        cand = [(i, j) for i in range(nm) for j in range(i + 1, nm) if bodies[i]["nonex"] and not bodies[j]["nonex"]]
        if cand:
            i, j = draw(st.sampled_from(cand))

            def mk(idx):
                cb = bodies[idx]
                return dict(t="call", callee=cb["name"], en=False, hops=0, via_methods=False,
                            arg=(draw(st.integers(0, (1 << cb["iw"]) - 1)) if (cb["iw"] and draw(st.booleans())) else None))

            if not any(c["t"] == "call" and c["callee"] == bodies[j]["name"] for c in bodies[i]["stmts"]):
                bodies[i]["stmts"].append(mk(j))
            # two fresh transactions carry the shape (call sites added to existing bodies would mostly be removed
            # again by the repair pass)
            alts = [[mk(i)], [mk(j)]]
            if draw(st.booleans()):
                alts.reverse()
            mod = bodies[i]["mod"]
            bodies.append(dict(kind="T", name=f"t{nt}", mod=mod, rdy=draw(st.booleans()), stmts=[mk(i)]))
            bodies.append(dict(kind="T", name=f"t{nt + 1}", mod=mod, rdy=draw(st.booleans()),
                               stmts=[dict(t="if", alts=alts, **{"else": draw(st.booleans())})]))
    elif inject_shapes and allow_if and draw(st.integers(0, 3)) == 0:
        # shape: two transactions of one module call the same exclusive method X from inside control structures that
        # sit at the same position (ordinal, depth) of their bodies but in DIFFERENT alternatives: nothing makes these
        # two call sites exclusive (different structures), so the transactions conflict
        cand = [j for j in range(nm) if not bodies[j]["nonex"]]
        if cand:
            j = draw(st.sampled_from(cand))
            cb = bodies[j]

            def mk2():
                return dict(t="call", callee=cb["name"], en=allow_enable and draw(st.integers(0, 4)) == 0, hops=0,
                            via_methods=False,
                            arg=(draw(st.integers(0, (1 << cb["iw"]) - 1)) if (cb["iw"] and draw(st.booleans())) else None))

            def struct(kind_, nalt, where, inner):
                alts = [[] for _ in range(nalt)]
                alts[where] = inner
                if kind_ == "if" or not (allow_switch and allow_fsm):
                    return dict(t="if", alts=alts, **{"else": nalt > 1 and draw(st.booleans())})
                if kind_ == "switch":
                    dflt = draw(st.booleans())
                    return dict(t="switch", w=2, pats=[[k] for k in range(nalt - int(dflt))], default=dflt, alts=alts)
                return dict(t="fsm", alts=alts if nalt > 1 else alts + [[]])

            kind_ = draw(st.sampled_from(["if", "if", "switch", "fsm"]))
            nalt = draw(st.integers(2, 3))
            wa = draw(st.integers(0, nalt - 1))
            wb = draw(st.sampled_from([k for k in range(nalt) if k != wa]))
            deep = depth_ok = draw(st.booleans())
            lead = draw(st.integers(0, 1))  # the same number of (empty) structures precedes both
            for k, where in enumerate((wa, wb)):
                inner = [mk2()]
                stc = struct(kind_, nalt, where, inner)
                if deep and depth_ok:
                    stc = struct("if", 2, 0, [stc])
                stmts = [dict(t="if", alts=[[]], **{"else": False}) for _ in range(lead)] + [stc]
                bodies.append(dict(kind="T", name=f"t{nt + k}", mod=cb["mod"], rdy=draw(st.booleans()), stmts=stmts))
    if allow_nm and draw(st.integers(0, 1)) == 0:
        # a method DEFINED INSIDE another body (it is ready-dependent on the enclosing body): one top-level method is
        # moved into the statements of another body whose transactions are disjoint from the method's (a transaction
        # reaching both would be a combinational loop through run -> ready); kept only if the design is still
        # well-formed after repair
        import copy as _copy

        # (reaching sets of the unrepaired design are supersets of the final ones: disjoint here => disjoint later;
        # that both sides are still reached after the repair is verified on the trial design below)
        pan = analyze(dict(sched=schedv, bodies=bodies, rels=[], tops=[]))
        reach = {b["name"]: set(pan.reaching_transactions(b["name"])) for b in bodies}
        cand = [
            (j, pi)
            for j, mb in enumerate(bodies)
            if mb["kind"] == "M" and reach[mb["name"]]
            for pi, pb in enumerate(bodies)
            if pi != j and reach[pb["name"]] and not (reach[pb["name"]] & reach[mb["name"]])
        ]
        # prefer methods that are reached through another method (the dependency has to be found transitively)
        deep = [c for c in cand if any(s["callee"] == bodies[c[0]]["name"] and s["owner"] in pan.methods for s in pan.sites)]
        if deep and draw(st.booleans()):
            cand = deep
        if cand:
            j, pi = draw(st.sampled_from(cand))
            guarded = draw(st.booleans())
            trial = _copy.deepcopy(bodies)
            inner = trial.pop(j)
            owner = trial[pi - (1 if pi > j else 0)]
            def set_mod(b, mod):
                b["mod"] = mod

                def rec(stmts):
                    for st_ in stmts:
                        if st_["t"] == "nt":
                            set_mod(st_["body"], mod)
                        elif st_["t"] in ("if", "switch", "fsm"):
                            for sub in st_["alts"]:
                                rec(sub)

                rec(b["stmts"])

            set_mod(inner, owner["mod"])
            stmt = dict(t="nt", body=inner)
            owner["stmts"].append(dict(t="if", alts=[[stmt]], **{"else": False}) if guarded else stmt)
            tspec = dict(sched=schedv, bodies=trial, rels=[], tops=[])
            repair(tspec)
            tan = analyze(tspec)
            par = tan.parent[inner["name"]]
            if (
                tan.reaching_transactions(inner["name"])
                and tan.reaching_transactions(par)
                and not set(tan.reaching_transactions(par)) & set(tan.reaching_transactions(inner["name"]))
                and relations_ok(tspec)
            ):
                bodies = trial
    spec = dict(sched=schedv, bodies=bodies, rels=[], tops=[])
    if allow_tops:
        # bodies defined inside the alternatives of a top-level If/Elif/Else of their module
        for mod in sorted({b["mod"] for b in bodies}):
            if draw(st.integers(0, 3)) != 0:
                continue
            names = [b["name"] for b in bodies if b["mod"] == mod]
            nalt = draw(st.integers(1, 3))
            alts = [[] for _ in range(nalt)]
            for nm in names:
                where = draw(st.integers(0, nalt + 1))
                if where < nalt:
                    alts[where].append(nm)
            alts = [a for a in alts if a]
            if alts:
                spec["tops"].append({"t": "if", "alts": alts, "else": len(alts) > 1 and draw(st.booleans())})
    repair(spec)
    an = analyze(spec)
    top = [b["name"] for b in bodies]
    bodies_by_name = {b["name"]: b for b in bodies}
    if allow_rels:
        nrel = draw(st.integers(min_rels, 3))
        attempts = 0
        while len(spec["rels"]) < nrel and attempts < 4 * nrel + 4:
            attempts += 1
            a, b2 = draw(st.sampled_from(top)), draw(st.sampled_from(top))
            kind = draw(st.sampled_from(list(rel_kinds)))
            p = draw(st.sampled_from(["L", "R", "U"]))
            if a == b2:
                continue
            if not an.reaching_transactions(a) or not an.reaching_transactions(b2):
                continue  # relations with uncalled methods are pruned by the library: uninteresting
            if not allow_same_trans_conf and set(an.reaching_transactions(a)) & set(an.reaching_transactions(b2)):
                continue
            rel = [kind, a, b2] if kind in ("sb", "sbr") else ["conf", a, b2, p]
            if kind == "conf" and bodies_by_name[b2]["kind"] == "M" and draw(st.integers(0, 3)) == 0:
                rel.append("A")
            spec["rels"].append(rel)
            if not relations_ok(spec):
                spec["rels"].pop()
                if kind == "conf" and p != "U":
                    spec["rels"].append(["conf", a, b2, "U"])
                    if not relations_ok(spec):
                        spec["rels"].pop()
    if allow_rels and allow_rdep and draw(st.integers(0, 2)) == 0:
        # one explicit schedule_before(ready_dependent=True) between bodies reached by different transactions
        # (the dependent end may be a nested body or the target of another such relation: it then has two sources)
        inner_names = [n for n in an.bodies if an.parent[n] is not None]
        prefer = inner_names + [r[2] for r in spec["rels"] if r[0] == "sbr"]
        for _ in range(6):
            a = draw(st.sampled_from(top))
            b2 = draw(st.sampled_from(prefer)) if prefer and draw(st.booleans()) else draw(st.sampled_from(top))
            if a == b2 or not an.reaching_transactions(a) or not an.reaching_transactions(b2):
                continue
            if ["sbr", a, b2] in spec["rels"]:
                continue
            spec["rels"].append(["sbr", a, b2])
            if relations_ok(spec):
                break
            spec["rels"].pop()
    if allow_rels and dup_rels and spec["rels"] and draw(st.integers(0, 2)) == 0:
        # a second relation that lifts to a transaction pair already related (e.g. a method-level conflict plus a
        # transaction-level one with another priority)
        confs = [r for r in spec["rels"] if r[0] == "conf"]
        if confs:
            r0 = draw(st.sampled_from(confs))
            ta = draw(st.sampled_from(an.reaching_transactions(r0[1])))
            tb = draw(st.sampled_from(an.reaching_transactions(r0[2])))
            q = draw(st.sampled_from(["L", "R", "U"]))
            if ta != tb or allow_same_trans_conf:
                if an.parent[ta] is None and an.parent[tb] is None:  # relations are declared on top-level bodies
                    spec["rels"].append(["conf", ta, tb, q])
                    if not relations_ok(spec):
                        spec["rels"].pop()
    if allow_rdep and (rdep_bias or draw(st.integers(0, 1)) == 0):
        # Forwarder-style readiness: method b is ready only if an earlier body a runs (a.schedule_before(b)); the two
        # are reached by different transactions
        cand = [
            (a, b["name"])
            for b in bodies
            if b["kind"] == "M"
            for a in top
            if a != b["name"]
            and an.deforder[a] < an.deforder[b["name"]]
            and an.reaching_transactions(a)
            and an.reaching_transactions(b["name"])
            and not set(an.reaching_transactions(a)) & set(an.reaching_transactions(b["name"]))
        ]
        for _ in range(draw(st.integers(1, 2)) if cand else 0):
            a, bn = draw(st.sampled_from(cand))
            b = bodies_by_name[bn]
            if b["rdep"]:
                continue
            b["rdep"] = a
            if not relations_ok(spec):
                b["rdep"] = None
                continue
            if allow_rels and draw(st.integers(0, 1 if rdep_bias else 2)) == 0:
                # the same pair is additionally declared conflicting (a shared resource), on the same object
                spec["rels"].append(["conf", a, bn, draw(st.sampled_from(["U", "L"]))])
                if not relations_ok(spec):
                    spec["rels"].pop()
        # whether the ordering is declared before or after the explicit relations
        spec["rdep_first"] = draw(st.booleans())
    an = analyze(spec)
    space = an.space()
    if space <= max_space:
        spec["nvals"] = None
        spec["vals"] = []
    else:
        spec["nvals"] = nvals
        spec["vals"] = draw(st.lists(st.integers(0, space - 1), min_size=nvals, max_size=nvals))
    return spec


@st.composite
def gen_conflict_graph_spec(draw, *, sched="eager", max_trans=6, prios=True, same_trans=False):
    """Relation-heavy designs: 3-6 small transactions (each calling 0-2 of 0-3 exclusive methods) and 2-7
    add_conflict / schedule_before relations forming hubs, chains and trees, so that conflict components with
    non-trivial topology (a hub whose neighbours have further neighbours) are common.  All valuations are enumerated."""
    nt = draw(st.integers(3, max_trans))
    nm = draw(st.integers(0, 3))
    bodies = []
    for i in range(nm):
        bodies.append(dict(kind="M", name=f"m{i}", mod=0, rdy=draw(st.booleans()), nonex=False, comb=None, iw=0, ow=0,
                           val=None, single=False, rdep=None, stmts=[]))
    order = draw(st.permutations(list(range(nt))))  # definition order of the transactions
    for i in order:
        calls = sorted(draw(st.sets(st.integers(0, nm - 1), max_size=2))) if nm else []
        bodies.append(dict(kind="T", name=f"t{i}", mod=0, rdy=True, stmts=[
            dict(t="call", callee=f"m{c}", en=False, arg=None, hops=0, via_methods=False) for c in calls]))
    spec = dict(sched=sched, bodies=bodies, rels=[], tops=[])
    # a spanning tree over a subset of the transactions (hub / chain / mixed), plus extra edges
    nodes = [f"t{i}" for i in range(nt)]
    edges = []
    for k in range(1, nt):
        if draw(st.integers(0, 5)) == 0:
            continue  # leave some transactions unrelated
        parent = draw(st.integers(0, k - 1))
        edges.append((nodes[parent], nodes[k]))
    for _ in range(draw(st.integers(0, 2))):
        a, b = draw(st.sampled_from(nodes)), draw(st.sampled_from(nodes))
        if a != b:
            edges.append((a, b))
    an = analyze(spec)
    for a, b in edges:
        if draw(st.booleans()):
            a, b = b, a
        kind = draw(st.sampled_from(["conf", "conf", "conf", "sb"]))
        p = draw(st.sampled_from(["L", "R", "U"])) if prios else "U"
        rel = ["sb", a, b] if kind == "sb" else ["conf", a, b, p]
        spec["rels"].append(rel)
        if not relations_ok(spec):
            spec["rels"].pop()
            if kind == "conf":
                spec["rels"].append(["conf", a, b, "U"])
                if not relations_ok(spec):
                    spec["rels"].pop()
    # conflicts between methods called by different transactions
    mnames = [f"m{i}" for i in range(nm)]
    for _ in range(draw(st.integers(0, 2)) if nm >= 2 else 0):
        a, b = draw(st.sampled_from(mnames)), draw(st.sampled_from(mnames))
        if a == b or not an.reaching_transactions(a) or not an.reaching_transactions(b):
            continue
        if not same_trans and set(an.reaching_transactions(a)) & set(an.reaching_transactions(b)):
            continue
        rel = ["conf", a, b, draw(st.sampled_from(["L", "R", "U"])) if prios else "U"]
        if draw(st.integers(0, 2)) == 0:
            rel.append("A")
        spec["rels"].append(rel)
        if not relations_ok(spec):
            spec["rels"].pop()
    spec["nvals"] = None
    spec["vals"] = []
    return spec


@st.composite
def gen_deep_nesting_spec(draw, sched="eager"):
    """Three levels of body nesting with callers on every level: an outer body O (transaction or method), a method M
    defined inside O and a method I defined inside M; I's readiness may use M's run signal (the documented rule:
    readiness may depend on the run of bodies declared earlier by nesting).  Callers of I and of M conflict through
    shared exclusive methods in drawn combinations, and the transactions are created in a drawn order."""

    def M(name, **kw):
        b = dict(kind="M", name=name, mod=0, rdy=draw(st.booleans()), nonex=False, comb=None, iw=0, ow=0, val=None,
                 single=False, rdep=None, stmts=[])
        b.update(kw)
        return b

    def call(c, en=False):
        return dict(t="call", callee=c, en=en, arg=None, hops=0, via_methods=False)

    def maybe_if(stmt):
        return dict(t="if", alts=[[stmt]], **{"else": False}) if draw(st.integers(0, 3)) == 0 else stmt

    nres = draw(st.integers(1, 2))
    res = [M(f"s{k}") for k in range(nres)]
    inner = M("i0", rdy_parent=draw(st.integers(0, 3)) != 0)
    mid = M("m0", stmts=[maybe_if(dict(t="nt", body=inner))])
    outer_is_t = draw(st.booleans())
    if outer_is_t:
        outer = dict(kind="T", name="o0", mod=0, rdy=draw(st.booleans()), stmts=[maybe_if(dict(t="nt", body=mid))])
    else:
        outer = M("o0", stmts=[maybe_if(dict(t="nt", body=mid))])
    trans = []
    if not outer_is_t:
        trans.append(dict(kind="T", name="tz", mod=0, rdy=True, stmts=[call("o0")]))
    ny = draw(st.integers(1, 3))
    for k in range(ny):
        trans.append(dict(kind="T", name=f"ty{k}", mod=0, rdy=True, stmts=[call("m0", en=draw(st.integers(0, 3)) == 0)]))
    nx = draw(st.integers(1, 2))
    for k in range(nx):
        trans.append(dict(kind="T", name=f"tx{k}", mod=0, rdy=True, stmts=[call("i0", en=draw(st.integers(0, 3)) == 0)]))
    # shared exclusive resources: each is used by a drawn subset of the callers (conflicts between the levels)
    users = [t for t in trans if t["name"] != "tz"]
    for r in res:
        for t in users:
            if draw(st.integers(0, 2)) == 0:
                t["stmts"].append(call(r["name"]))
    order = draw(st.permutations(list(range(len(trans)))))
    bodies = res + ([outer] if not outer_is_t else []) + [trans[i] for i in order]
    if outer_is_t:
        bodies.insert(nres + draw(st.integers(0, len(trans))), outer)
    spec = dict(sched=sched, bodies=bodies, rels=[], tops=[])
    repair(spec)
    an = analyze(spec)
    spec["nvals"] = None if an.space() <= 512 else 256
    spec["vals"] = [] if spec["nvals"] is None else [draw(st.integers(0, an.space() - 1)) for _ in range(256)]
    return spec


def remove_site(spec, target) -> None:
    def rec(stmts):
        out = []
        for s in stmts:
            if s is target:
                continue
            if s["t"] == "nt":
                s["body"]["stmts"] = rec(s["body"]["stmts"])
            elif s["t"] in ("if", "switch", "fsm"):
                s["alts"] = [rec(sub) for sub in s["alts"]]
            out.append(s)
        return out

    for b in spec["bodies"]:
        b["stmts"] = rec(b["stmts"])


def nested_conflicts(an: Analysis) -> Optional[dict]:
    """a nested transaction that conflicts with the transaction it is directly nested in (ready-dependent + conflict
    is rejected as a deadlock): returns a site of the nested transaction to remove"""
    for t in an.transactions:
        par = an.parent[t]
        if par is not None and an.bodies[par]["kind"] == "T" and an.may_conflict(t, par):
            for c in an.chains(t):
                x = c[-1]["callee"]
                if an.exclusive(x) and any(c2[-1]["callee"] == x for c2 in an.chains(par)):
                    return c[0]
    return None


def repair(spec) -> None:
    """deterministic repair pass: remove call sites until our own analysis calls the design well-formed"""
    while True:
        an = analyze(spec)
        dc = an.double_call()
        if dc is not None:
            remove_site(spec, dc[1]["s"])
            continue
        nc = nested_conflicts(an)
        if nc is not None:
            remove_site(spec, nc["s"])
            continue
        break


