"""Shared helpers for the observability checks (C33 event log, C34 hardware logs).

A *placement* says under which module context an emission site / log statement is put.  The generated design has
two condition inputs c0, c1 and two transaction request inputs en0, en1; every site gets its own control block, in
case order, so the registration order of the library equals the order of the case.

    ["top"]            directly in the module                         context = 1
    ["if", i]          under m.If(c_i)                                context = c_i
    ["else", i]        under m.Else() of m.If(c_i)                    context = ~c_i
    ["elif", i, j]     under m.Elif(c_j) of m.If(c_i)                 context = ~c_i & c_j
    ["sw", v]          under m.Case(v) of m.Switch(Cat(c0, c1))       context = (c0 + 2*c1 == v)
    ["tr", k]          in the body of a transaction with ready=en_k   context = en_k
    ["trif", k, i]     under m.If(c_i) in such a transaction body     context = en_k & c_i
    ["meth", k]        in the body of an always-ready method called by a transaction with ready=en_k
"""

from __future__ import annotations

from .core import setup_paths

setup_paths()

from amaranth import *  # noqa: E402,F401,F403
from hypothesis import strategies as st  # noqa: E402

NC = 2  # condition inputs
NE = 2  # transaction request inputs


def places():
    return st.one_of(
        st.just(["top"]),
        st.tuples(st.just("if"), st.integers(0, NC - 1)).map(list),
        st.tuples(st.just("else"), st.integers(0, NC - 1)).map(list),
        st.sampled_from([["elif", 0, 1], ["elif", 1, 0]]),
        st.tuples(st.just("sw"), st.integers(0, 3)).map(list),
        st.tuples(st.just("tr"), st.integers(0, NE - 1)).map(list),
        st.tuples(st.just("trif"), st.integers(0, NE - 1), st.integers(0, NC - 1)).map(list),
        st.tuples(st.just("meth"), st.integers(0, NE - 1)).map(list),
    )


def place_active(place, c, en) -> bool:
    """Model: is the module context of `place` active for condition bits c[] and request bits en[]?"""
    k = place[0]
    if k == "top":
        return True
    if k == "if":
        return bool(c[place[1]])
    if k == "else":
        return not c[place[1]]
    if k == "elif":
        return (not c[place[1]]) and bool(c[place[2]])
    if k == "sw":
        return c[0] + 2 * c[1] == place[1]
    if k == "tr":
        return bool(en[place[1]])
    if k == "trif":
        return bool(en[place[1]]) and bool(c[place[2]])
    if k == "meth":
        return bool(en[place[1]])
    raise ValueError(place)


def build_under(m, place, c, en, idx, emit):
    """Call emit() with `m` positioned under the module context described by `place`."""
    from transactron import Method, Transaction, def_method

    k = place[0]
    if k == "top":
        emit()
    elif k == "if":
        with m.If(c[place[1]]):
            emit()
    elif k == "else":
        dummy = Signal(name=f"dummy{idx}")
        with m.If(c[place[1]]):
            m.d.comb += dummy.eq(1)
        with m.Else():
            emit()
    elif k == "elif":
        dummy = Signal(name=f"dummy{idx}")
        with m.If(c[place[1]]):
            m.d.comb += dummy.eq(1)
        with m.Elif(c[place[2]]):
            emit()
    elif k == "sw":
        with m.Switch(Cat(c[0], c[1])):
            with m.Case(place[1]):
                emit()
    elif k == "tr":
        with Transaction(name=f"tr{idx}").body(m, ready=en[place[1]]):
            emit()
    elif k == "trif":
        with Transaction(name=f"tr{idx}").body(m, ready=en[place[1]]):
            with m.If(c[place[2]]):
                emit()
    elif k == "meth":
        meth = Method(name=f"meth{idx}")

        @def_method(m, meth)
        def _():
            emit()

        with Transaction(name=f"tr{idx}").body(m, ready=en[place[1]]):
            meth(m)
    else:
        raise ValueError(place)


def to_signed(raw: int, width: int, signed: bool) -> int:
    raw &= (1 << width) - 1
    if signed and raw >> (width - 1):
        raw -= 1 << width
    return raw


def ctl_history(draw, ncyc: int):
    """Per-cycle condition / request bits, biased towards active contexts."""
    wc = [draw(st.integers(2, 7)) for _ in range(NC)]
    we = [draw(st.integers(3, 8)) for _ in range(NE)]
    out = []
    for _ in range(ncyc):
        c = [int(draw(st.integers(0, 7)) < w) for w in wc]
        e = [int(draw(st.integers(0, 7)) < w) for w in we]
        out.append((c, e))
    return out
