import os
import sys


def _reexec_with_fixed_hashseed():
    # The library iterates over sets of id-hashed objects; our oracles are order independent, pinning the hash seed
    # only makes replays bit-identical.
    want = os.environ.get("TV_HASHSEED", "0")  # TV_HASHSEED exists only to test independence from the hash seed
    if os.environ.get("PYTHONHASHSEED") != want:
        env = dict(os.environ, PYTHONHASHSEED=want)
        os.execve(sys.executable, [sys.executable, "-m", "tv", *sys.argv[1:]], env)


if __name__ == "__main__":
    _reexec_with_fixed_hashseed()
    from tv.runner import main

    sys.exit(main())
