import os
import sys


def _reexec_with_fixed_hashseed():
    # The library iterates over sets of id-hashed objects; our oracles are order independent, pinning the hash seed
    # only makes replays bit-identical.
    if os.environ.get("PYTHONHASHSEED") != "0":
        env = dict(os.environ, PYTHONHASHSEED="0")
        os.execve(sys.executable, [sys.executable, "-m", "tv", *sys.argv[1:]], env)


if __name__ == "__main__":
    _reexec_with_fixed_hashseed()
    from tv.runner import main

    sys.exit(main())
