"""Shared helpers for the memory properties (C21 MemoryBank, C22 AsyncMemoryBank, C23 multiport memories)."""

from __future__ import annotations

from .core import setup_paths

setup_paths()

# memory kinds: "Memory" (amaranth.lib.memory.Memory), "MultiRead", "XOR", "XORILVT", "OneHotILVT" (transactron)
ILVT_KINDS = ("XORILVT", "OneHotILVT")


def mem_class(kind: str):
    import amaranth.lib.memory as amem
    from transactron.utils.amaranth_ext import memory as tmem

    return {
        "Memory": amem.Memory,
        "MultiRead": tmem.MultiReadMemory,
        "XOR": tmem.MultiportXORMemory,
        "XORILVT": tmem.MultiportXORILVTMemory,
        "OneHotILVT": tmem.MultiportOneHotILVTMemory,
    }[kind]


# (width, granularity) pairs drawn by the MemoryBank checks: plain words first, then 2..8 granules, then the degenerate
# one-granule case (granularity == width, a 1-bit mask)
SHAPES = [
    (4, None), (8, None), (6, None), (3, None), (2, None), (1, None), (5, None), (7, None),
    (4, 2), (8, 4), (6, 3), (6, 2), (8, 2), (4, 1), (2, 1), (3, 1), (8, 1), (5, 1),
    (4, 4), (1, 1), (6, 6),
]  # fmt: skip


# element-structured shapes: (total width, granularity in bits, element width).  The memory shape is
# ArrayLayout(elem, width // elem) and the constructor's `granularity` argument then counts ELEMENTS (amaranth's rule),
# while the reference model keeps working on bits.  "struct" = a two-field StructLayout (no granularity allowed).
ELEM_SHAPES = [
    (8, 4, 2), (8, 2, 2), (6, 3, 3), (4, 2, 1), (9, 3, 3), (8, 4, 4), (6, 2, 2), (8, None, 2), (6, None, 3),
    (8, None, "struct"), (5, None, "struct"),
]  # fmt: skip


def make_shape(width: int, elem):
    """the `shape` constructor argument"""
    from amaranth.lib import data

    if elem is None:
        return width
    if elem == "struct":
        return data.StructLayout({"lo": width // 2, "hi": width - width // 2})
    return data.ArrayLayout(elem, width // elem)


def gran_arg(gran, elem):
    """the `granularity` constructor argument"""
    if gran is None or elem in (None, "struct"):
        return gran
    return gran // elem


def to_data(v: int, width: int, elem):
    """python int -> value accepted for a field of that shape"""
    if elem is None:
        return v
    if elem == "struct":
        lo = width // 2
        return {"lo": v & ((1 << lo) - 1), "hi": v >> lo}
    return [(v >> (i * elem)) & ((1 << elem) - 1) for i in range(width // elem)]


def from_data(x, width: int, elem) -> int:
    if elem is None:
        return x
    if elem == "struct":
        return x["lo"] | (x["hi"] << (width // 2))
    out = 0
    for i, e in enumerate(x):
        out |= e << (i * elem)
    return out


def divisors(n: int) -> list[int]:
    return [d for d in range(1, n + 1) if n % d == 0]


def granules(width: int, gran) -> int:
    """Number of independently writable parts (= width of the write mask)."""
    return 1 if gran is None else width // gran


def apply_mask(old: int, data: int, mask: int, width: int, gran) -> int:
    """Ideal masked write: granule g of the row is replaced iff bit g of mask is set."""
    if gran is None:
        return data if mask else old
    out = old
    for g in range(width // gran):
        if (mask >> g) & 1:
            gm = ((1 << gran) - 1) << (g * gran)
            out = (out & ~gm) | (data & gm)
    return out


def narrow(width: int, depth: int) -> bool:
    """Data narrower than the address: some row number does not fit into `width` bits."""
    return (depth - 1) >> width != 0


_known_cache: dict = {}


def known_keys(pid: str) -> set:
    """Region keys currently registered with status `known` for this property (read once per process)."""
    if pid not in _known_cache:
        from .runner import load_known

        _known_cache[pid] = {e["key"] for e in load_known(pid) if e.get("status") == "known"}
    return _known_cache[pid]


def pick_key(pid: str, candidates: list):
    """Choose the region key of a failure that lies in several known-defect regions at once.  The candidates are
    computed from the case alone (most specific first); among them one that is currently registered as `known` in
    known_findings.json is preferred, so that repairing one defect does not make the overlap with a still-known one
    look like a new violation.  With no candidate the failure is unattributed (None)."""
    if not candidates:
        return None
    for k in candidates:
        if k in known_keys(pid):
            return k
    return candidates[0]
