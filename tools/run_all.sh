#!/bin/bash
# runs every registered quick (or $1=thorough) check once and prints id, exit code, wall seconds, summary line
tier=${1:-quick}
cd /verif
for id in $(python3 -c "import json;print(' '.join(c['property_id'] for c in json.load(open('MANIFEST.json'))['checks']))"); do
  t0=$(date +%s.%N)
  out=$(/venv/bin/python -m tv $id --tier $tier $TV_EXTRA 2>&1); rc=$?
  t1=$(date +%s.%N)
  printf "%s rc=%s wall=%.1f %s\n" $id $rc $(echo "$t1 - $t0" | bc) "$(echo "$out" | grep -E "^$id tier" | cut -c1-150)"
  echo "$out" | grep -E "^VIOLATION|^KNOWN-FINDING|^HARNESS|^violation" | cut -c1-300
done
