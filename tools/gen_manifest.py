#!/venv/bin/python
"""Regenerates MANIFEST.json from the property modules present in tv/props (each carries its own metadata)."""
import importlib, json, os, sys

VERIF = os.path.dirname(os.path.dirname(os.path.abspath(__file__)))
sys.path.insert(0, VERIF)
os.chdir(VERIF)
props = [json.loads(l) for l in open("properties.jsonl")]
checks, na = [], []
ENGINES = {
    "A": ("designs", "tv/designs.py", "generated Transactron designs (grammar + independent static analysis), all input valuations"),
    "B": ("cyc", "tv/cyc.py", "cycle-accurate method driver with python reference models"),
    "C": ("comb", "tv/comb.py", "combinational / pure-python targets against python definitions"),
}
serves = {k: [] for k in ENGINES}
for p in props:
    pid = p["id"]
    path = f"tv/props/{pid.lower()}.py"
    if not os.path.exists(path):
        na.append({"property_id": pid, "reason": "check not built yet (planned, see DESIGN.md section 6)"})
        continue
    mod = importlib.import_module(f"tv.props.{pid.lower()}")
    eng = getattr(mod, "ENGINE", "B")
    serves[eng].append(pid)
    checks.append({
        "property_id": pid,
        "quick_cmd": f"/venv/bin/python -m tv {pid} --tier quick",
        "thorough_cmd": f"/venv/bin/python -m tv {pid} --tier thorough",
        "evidence_file": f"/verif/evidence/{pid}.json",
        "replay_cmd_template": f"/venv/bin/python -m tv {pid} --replay {{path}}",
        "engine": ENGINES[eng][0],
        "level_claimed": {
            "category": "exploration",
            "text": getattr(mod, "LEVEL_TEXT", "held on every generated case; generated-input search against an explicit oracle: " + mod.RULE),
            "design_ref": getattr(mod, "DESIGN_REF", "DESIGN.md section 6, " + pid),
        },
        "level_note": "; ".join(getattr(mod, "ASSUMPTIONS", [])) or "amaranth simulator trusted",
        "technique": getattr(mod, "TECHNIQUE", "property-based testing (Hypothesis) against a reference model"),
    })
man = {
    "version": 1,
    "setup_cmd": "/venv/bin/python -m tv.setup",
    "hooks": {
        "guard": "TRANSACTRON_VERIF",
        "enable": "no source hooks are needed: all observables are public signals/methods or witnesses in generated designs; checks import transactron from /repo's working tree",
        "baseline_off_cmd": "cd /repo && /venv/bin/python -m pytest -ra -q -p no:cacheprovider --timeout=900 --continue-on-collection-errors",
        "source_commits": [],
        "add_only": True,
    },
    "engines": [
        {"name": n, "path": path, "serves_properties": serves[k], "kind_free_text": txt} for k, (n, path, txt) in ENGINES.items()
    ],
    "checks": checks,
    "not_applicable": na,
    "notes": "All checks: cd /verif && /venv/bin/python -m tv <ID> --tier quick|thorough. exit 0 held / 1 VIOLATION / 2 harness error. See DESIGN.md.",
}
json.dump(man, open("MANIFEST.json", "w"), indent=1)
print(f"{len(checks)} checks, {len(na)} not yet claimed")
