#!/bin/bash
# soak: every quick check for several seeds, no evidence written; prints only anomalies and a summary per run
cd /verif
for sd in "$@"; do
for id in $(python3 -c "import json;print(' '.join(c['property_id'] for c in json.load(open('MANIFEST.json'))['checks']))"); do
  out=$(VERIF_SEED=$sd PYTHONHASHSEED=$sd /venv/bin/python -m tv $id --tier quick --no-evidence 2>&1); rc=$?
  echo "seed=$sd $id rc=$rc $(echo "$out" | grep -E "^$id tier" | cut -c1-90)"
  if [ $rc -ne 0 ]; then echo "$out" | grep -E "^VIOLATION|^HARNESS|^violation|^case" | cut -c1-1500; fi
done; done
