#!/opt/veriftools/pyvenv/bin/python
"""Validates MANIFEST.json and evidence/*.json against the schemas (run with python3-vt, which has jsonschema)."""
import glob, json, sys, jsonschema
ok = True
jsonschema.validate(json.load(open('/verif/MANIFEST.json')), json.load(open('/root/.vp/MANIFEST.schema.json')))
sch = json.load(open('/root/.vp/EVIDENCE.schema.json'))
for f in sorted(glob.glob('/verif/evidence/*.json')):
    try:
        jsonschema.validate(json.load(open(f)), sch)
    except Exception as e:
        ok = False; print("INVALID", f, str(e)[:300])
man = json.load(open('/verif/MANIFEST.json'))
ids = {c['property_id'] for c in man['checks']} | {c['property_id'] for c in man.get('not_applicable', [])}
props = {json.loads(l)['id'] for l in open('/verif/properties.jsonl')}
if ids != props: ok = False; print("manifest ids mismatch", props ^ ids)
print("valid" if ok else "PROBLEMS")
sys.exit(0 if ok else 1)
